"""Mechanical extraction of Rust items from /repo sources, and spec splicing.

Everything here is textual and deterministic.  An anchor that cannot be found
raises LostAnchor, which the driver turns into exit 2 (undecided), never into a
VIOLATION.
"""
import hashlib
import re


class LostAnchor(Exception):
    pass


class RewriteRefused(Exception):
    pass


def code_mask(src):
    """Return a bytearray m with m[i] == 1 iff src[i] is code (not inside a
    comment, string, byte string, raw string or char literal)."""
    n = len(src)
    m = bytearray(b"\x01" * n)
    i = 0
    while i < n:
        c = src[i]
        if c == "/" and i + 1 < n and src[i + 1] == "/":
            j = src.find("\n", i)
            j = n if j < 0 else j
            for k in range(i, j):
                m[k] = 0
            i = j
        elif c == "/" and i + 1 < n and src[i + 1] == "*":
            depth, j = 1, i + 2
            while j < n and depth:
                if src.startswith("/*", j):
                    depth += 1
                    j += 2
                elif src.startswith("*/", j):
                    depth -= 1
                    j += 2
                else:
                    j += 1
            for k in range(i, j):
                m[k] = 0
            i = j
        elif c == '"' or (c == "b" and i + 1 < n and src[i + 1] == '"' and not _ident_before(src, i)):
            s = i
            j = i + (2 if c == "b" else 1)
            while j < n and src[j] != '"':
                j += 2 if src[j] == "\\" else 1
            j += 1
            for k in range(s, min(j, n)):
                m[k] = 0
            i = j
        elif c == "r" and not _ident_before(src, i) and re.match(r'r#*"', src[i:i + 12]):
            mm = re.match(r'r(#*)"', src[i:i + 12])
            close = '"' + mm.group(1)
            j = src.find(close, i + len(mm.group(0)))
            j = n if j < 0 else j + len(close)
            for k in range(i, j):
                m[k] = 0
            i = j
        elif c == "'" or (c == "b" and i + 1 < n and src[i + 1] == "'" and not _ident_before(src, i)):
            s = i
            j = i + (2 if c == "b" else 1)
            # char literal or lifetime?
            if j < n and src[j] == "\\":
                k = src.find("'", j + 2)
                if k < 0:
                    i = j
                    continue
                for q in range(s, k + 1):
                    m[q] = 0
                i = k + 1
            elif j + 1 < n and src[j + 1] == "'":
                for q in range(s, j + 2):
                    m[q] = 0
                i = j + 2
            else:
                # multi-byte char literal like 'é' or a lifetime
                mm = re.match(r"[^\x00-\x7f]'", src[j:j + 2])
                if mm:
                    for q in range(s, j + 2):
                        m[q] = 0
                    i = j + 2
                else:
                    i = j  # lifetime
        else:
            i += 1
    return m


def _ident_before(src, i):
    return i > 0 and (src[i - 1].isalnum() or src[i - 1] == "_")


def match_brace(src, mask, open_pos):
    assert src[open_pos] == "{"
    depth = 0
    for i in range(open_pos, len(src)):
        if not mask[i]:
            continue
        if src[i] == "{":
            depth += 1
        elif src[i] == "}":
            depth -= 1
            if depth == 0:
                return i
    raise LostAnchor("unbalanced braces")


def find_code(src, mask, regex, start=0, end=None):
    """First regex match whose first char is code."""
    end = len(src) if end is None else end
    for mm in re.finditer(regex, src[:end]):
        if mm.start() >= start and mask[mm.start()]:
            return mm
    return None


def find_all_code(src, mask, regex, start=0, end=None):
    end = len(src) if end is None else end
    return [mm for mm in re.finditer(regex, src[:end]) if mm.start() >= start and mask[mm.start()]]


def block_after(src, mask, pos):
    """Span (open, close) of the first code '{' at or after pos."""
    i = pos
    depth = 0
    while i < len(src):
        if mask[i]:
            ch = src[i]
            if ch in "([":
                depth += 1
            elif ch in ")]":
                depth -= 1
            elif ch == "{" and depth <= 0:
                return i, match_brace(src, mask, i)
            elif ch == ";" and depth <= 0:
                raise LostAnchor("item has no body")
        i += 1
    raise LostAnchor("no block")


def cut_impl(src, header_regex):
    """Return (start, open, close) of the impl/mod/trait block whose header matches."""
    mask = code_mask(src)
    mm = find_code(src, mask, header_regex)
    if not mm:
        raise LostAnchor("block header not found: " + header_regex)
    o, c = block_after(src, mask, mm.start())
    return mm.start(), o, c


def cut_fn(src, name, within=None, nth=0):
    """Full text of `fn name` (from the start of its line to its closing brace).
    `within` = regex of the enclosing impl header."""
    mask = code_mask(src)
    lo, hi = 0, len(src)
    if within:
        mm = find_code(src, mask, within)
        if not mm:
            raise LostAnchor("enclosing block not found: " + within)
        o, c = block_after(src, mask, mm.start())
        lo, hi = o, c
    ms = find_all_code(src, mask, r"\bfn\s+" + re.escape(name) + r"\b", lo, hi)
    if len(ms) <= nth:
        raise LostAnchor("fn %s not found" % name)
    mm = ms[nth]
    ls = src.rfind("\n", 0, mm.start()) + 1
    o, c = block_after(src, mask, mm.end())
    return src[ls:c + 1]


def cut_item(src, header_regex):
    """struct/enum/const item: from header to closing brace or ';'."""
    mask = code_mask(src)
    mm = find_code(src, mask, header_regex)
    if not mm:
        raise LostAnchor("item not found: " + header_regex)
    i = mm.end()
    while i < len(src):
        if mask[i] and src[i] == ";":
            return src[mm.start():i + 1]
        if mask[i] and src[i] == "{":
            return src[mm.start():match_brace(src, mask, i) + 1]
        i += 1
    raise LostAnchor("item end not found")


def split_fn(fn_text):
    """(signature, body) where body starts at the fn's opening brace."""
    mask = code_mask(fn_text)
    mm = find_code(fn_text, mask, r"\bfn\b")
    o, c = block_after(fn_text, mask, mm.end())
    return fn_text[:o], fn_text[o:c + 1]


def name_return(sig, var="r"):
    """`-> T` becomes `-> (r: T)` (spec-only rewrite: names the result)."""
    mask = code_mask(sig)
    depth = 0
    arrow = None
    i = 0
    while i < len(sig):
        if mask[i]:
            if sig.startswith("->", i):
                if depth == 0 and arrow is None:
                    arrow = i
                i += 2
                continue
            ch = sig[i]
            if ch in "(<[":
                depth += 1
            elif ch in ")>]":
                depth -= 1
        i += 1
    if arrow is None:
        raise LostAnchor("no return type in signature")
    rest = sig[arrow + 2:]
    wm = re.search(r"\bwhere\b", rest)
    ty = rest[:wm.start()] if wm else rest
    tail = rest[wm.start():] if wm else ""
    return sig[:arrow] + "-> (" + var + ": " + ty.strip() + ")\n" + tail


def add_spec(fn_text, spec, ret="r"):
    """Insert requires/ensures/decreases text between signature and body."""
    sig, body = split_fn(fn_text)
    if ret:
        sig = name_return(sig, ret)
    return sig.rstrip() + "\n" + spec.rstrip() + "\n" + body


def loops(body):
    """Positions of loop headers (while/for/loop keywords) in code, in order."""
    mask = code_mask(body)
    return find_all_code(body, mask, r"\b(while|for|loop)\b")


def add_loop_spec(fn_text, ordinal, spec, kind=None):
    """Insert invariant/decreases before the body brace of loop #ordinal."""
    mask = code_mask(fn_text)
    sig_end = block_after(fn_text, mask, find_code(fn_text, mask, r"\bfn\b").end())[0]
    ls = [m for m in find_all_code(fn_text, mask, r"\b(while|for|loop)\b") if m.start() > sig_end]
    # `for` inside `impl<..> X for Y` cannot occur inside a fn body; ok
    if len(ls) <= ordinal:
        raise LostAnchor("loop #%d not found" % ordinal)
    mm = ls[ordinal]
    if kind and mm.group(1) != kind:
        raise LostAnchor("loop #%d is `%s`, expected `%s`" % (ordinal, mm.group(1), kind))
    o, _ = block_after(fn_text, mask, mm.end())
    return fn_text[:o].rstrip() + "\n" + spec.rstrip() + "\n" + fn_text[o:]


def _hit(needle, line):
    if hasattr(needle, "search"):
        return needle.search(line) is not None
    return needle in line


def insert_before_line(text, needle, ghost, occurrence=0, expect_count=None):
    """Insert ghost text on its own lines before the line containing `needle` (str or compiled regex)."""
    lines = text.split("\n")
    hits = [i for i, l in enumerate(lines) if _hit(needle, l)]
    if expect_count is not None and len(hits) != expect_count:
        raise LostAnchor("needle %r: %d hits, expected %d" % (needle, len(hits), expect_count))
    if len(hits) <= occurrence:
        raise LostAnchor("needle %r not found" % needle)
    i = hits[occurrence]
    lines[i:i] = ghost.rstrip("\n").split("\n")
    return "\n".join(lines)


def insert_after_line(text, needle, ghost, occurrence=0, expect_count=None):
    lines = text.split("\n")
    hits = [i for i, l in enumerate(lines) if _hit(needle, l)]
    if expect_count is not None and len(hits) != expect_count:
        raise LostAnchor("needle %r: %d hits, expected %d" % (needle, len(hits), expect_count))
    if len(hits) <= occurrence:
        raise LostAnchor("needle %r not found" % needle)
    i = hits[occurrence] + 1
    lines[i:i] = ghost.rstrip("\n").split("\n")
    return "\n".join(lines)


def replace_code(text, regex, repl, expect=None):
    """Regex replace restricted to code regions; returns (text, count)."""
    mask = code_mask(text)
    out, last, n = [], 0, 0
    for mm in re.finditer(regex, text):
        if not mask[mm.start()]:
            continue
        out.append(text[last:mm.start()])
        out.append(mm.expand(repl) if isinstance(repl, str) else repl(mm))
        last = mm.end()
        n += 1
    out.append(text[last:])
    if expect is not None and n != expect:
        raise LostAnchor("rewrite %r fired %d times, expected %d" % (regex, n, expect))
    return "".join(out), n


def rewrite_enumerate(fn_text):
    """R1: `for (P, X) in E.iter().enumerate() { B }` ->
    `let mut P: usize = 0; while P < E.len() { let X = &E[P]; B P += 1; }`.
    Refused if B contains `continue` or re-binds P."""
    mask = code_mask(fn_text)
    mm = find_code(fn_text, mask, r"for \((\w+), (\w+)\) in (\w+)\.iter\(\)\.enumerate\(\) ")
    if not mm:
        return fn_text, 0
    p, x, e = mm.group(1), mm.group(2), mm.group(3)
    o, c = block_after(fn_text, mask, mm.end())
    body = fn_text[o + 1:c]
    bmask = code_mask(body)
    if find_code(body, bmask, r"\bcontinue\b"):
        raise RewriteRefused("R1: loop body contains continue")
    if find_code(body, bmask, r"\blet\s+(mut\s+)?" + re.escape(p) + r"\b"):
        raise RewriteRefused("R1: loop body re-binds the position variable")
    ind = re.match(r"[ \t]*", fn_text[fn_text.rfind("\n", 0, mm.start()) + 1:]).group(0)
    new = ("let mut %s: usize = 0;\n%swhile %s < %s.len() {\n%s    let %s = &%s[%s];%s    %s += 1;\n%s}"
           % (p, ind, p, e, ind, x, e, p, body.rstrip() + "\n" + ind, p, ind))
    out = fn_text[:mm.start()] + new + fn_text[c + 1:]
    rest, n = rewrite_enumerate(out[:0]) if False else (out, 1)
    return rest, n


def byte_literals(text):
    """All byte-string literal tokens b"..." in code position, with decoded bytes."""
    res = []
    n = len(text)
    mask = code_mask(text)
    for mm in re.finditer(r'b"', text):
        i = mm.start()
        if _ident_before(text, i):
            continue
        # token start must itself be at a literal boundary: mask[i]==0 and (i==0 or mask[i-1]==1)
        if mask[i] != 0 or (i > 0 and mask[i - 1] == 0):
            continue
        j = i + 2
        out = []
        while j < n and text[j] != '"':
            if text[j] == "\\":
                e = text[j + 1]
                table = {"n": 10, "r": 13, "t": 9, "\\": 92, '"': 34, "'": 39, "0": 0}
                if e in table:
                    out.append(table[e])
                    j += 2
                elif e == "x":
                    out.append(int(text[j + 2:j + 4], 16))
                    j += 4
                else:
                    raise RewriteRefused("L1: unsupported escape in byte literal")
            else:
                out.extend(text[j].encode("utf-8"))
                j += 1
        res.append((text[i:j + 1], out))
    # dedupe, keep order
    seen, uniq = set(), []
    for tok, b in res:
        if tok not in seen:
            seen.add(tok)
            uniq.append((tok, b))
    return uniq


def literal_axioms(text):
    """L1: assume(b"…"@ =~= seq![…]) for each byte-string literal token."""
    lines = []
    for tok, b in byte_literals(text):
        if b:
            lines.append("assume(%s@ =~= seq![%s]);" % (tok, ", ".join("%du8" % x for x in b)))
        else:
            lines.append("assume(%s@ =~= Seq::<u8>::empty());" % tok)
    return lines


def sha(text):
    return hashlib.sha256(text.encode()).hexdigest()[:16]


def add_dummy_loop_decreases(fn_text):
    """Bare mode only: give every `loop`/`while` a placeholder measure so that Verus gets past its syntactic
    'loop must have a decreases clause' rule and reaches the recursion rule.  The measure is NOT claimed to be
    valid; bare-mode runs are only inspected for the recursion error."""
    mask = code_mask(fn_text)
    sig_end = block_after(fn_text, mask, find_code(fn_text, mask, r"\bfn\b").end())[0]
    ls = [m for m in find_all_code(fn_text, mask, r"\b(while|loop)\b") if m.start() > sig_end]
    for mm in reversed(ls):
        mask = code_mask(fn_text)
        o, _ = block_after(fn_text, mask, mm.end())
        fn_text = fn_text[:o].rstrip() + "\n decreases 0int,\n" + fn_text[o:]
    return fn_text


def impl_blocks(src, type_name):
    """(header_text, open, close) of every `impl ... type_name<...>` block (inherent or trait impl)."""
    mask = code_mask(src)
    out = []
    for mm in find_all_code(src, mask, r"\bimpl\b"):
        try:
            o, c = block_after(src, mask, mm.end())
        except LostAnchor:
            continue
        header = src[mm.start():o]
        if re.search(r"\b" + re.escape(type_name) + r"\s*<", header) and not re.search(r"\bfn\b", header):
            out.append((header, o, c))
    return out


def fns_in(src, o, c):
    """names of the fn items directly inside the block src[o..c] (depth 1)."""
    mask = code_mask(src)
    names = []
    depth = 0
    i = o
    while i <= c:
        if mask[i]:
            ch = src[i]
            if ch == "{":
                depth += 1
            elif ch == "}":
                depth -= 1
            elif depth == 1 and src.startswith("fn ", i) and not _ident_before(src, i):
                m = re.match(r"fn\s+(\w+)", src[i:i + 80])
                if m:
                    names.append(m.group(1))
        i += 1
    return names


def check_literal_axioms(texts, workdir):
    """L1 cross-check: every byte-string literal token for which an axiom `b"..."@ =~= seq![..]` is emitted is
    compiled by plain rustc next to the byte values the extractor decoded; a mismatch is a machinery error."""
    import os
    import subprocess
    pairs = []
    for t in texts:
        pairs += byte_literals(t)
    seen, uniq = set(), []
    for tok, b in pairs:
        if tok not in seen:
            seen.add(tok)
            uniq.append((tok, b))
    if not uniq:
        return 0
    os.makedirs(workdir, exist_ok=True)
    src = os.path.join(workdir, "l1_guard.rs")
    body = "".join("    assert_eq!(&%s[..], &[%s][..] as &[u8]);\n" % (tok, ", ".join("%du8" % x for x in b)) for tok, b in uniq)
    open(src, "w").write("fn main() {\n" + body + "}\n")
    exe = os.path.join(workdir, "l1_guard")
    r = subprocess.run(["rustc", "-A", "warnings", "-o", exe, src], capture_output=True, text=True)
    if r.returncode != 0:
        raise RewriteRefused("L1 guard does not compile: " + r.stderr[-400:])
    r = subprocess.run([exe], capture_output=True, text=True)
    if r.returncode != 0:
        raise RewriteRefused("L1 guard: a decoded byte-string literal differs from rustc's: " + r.stderr[-400:])
    return len(uniq)
