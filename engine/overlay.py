"""E2: scratch copy of /repo's working tree + add-only cfg(kani) overlay + cargo kani."""
import os
import re
import shutil
import time
from engine.core import sh, Undecided, REPO, SCRATCH_ROOT, CACHE, WORK
from engine import rsx


class Scratch:
    def __init__(self, prop):
        self.prop = prop
        self.root = os.path.join(SCRATCH_ROOT, prop, "repo")
        self.added = []  # (file, lines added)

    def __enter__(self):
        # one run per property at a time (the scratch path is fixed so that cargo's build cache stays valid)
        import fcntl
        os.makedirs(SCRATCH_ROOT, exist_ok=True)
        self._lock = open(os.path.join(SCRATCH_ROOT, self.prop + ".lock"), "w")
        fcntl.flock(self._lock, fcntl.LOCK_EX)
        os.makedirs(os.path.dirname(self.root), exist_ok=True)
        rc, out, err, _ = sh(["rsync", "-a", "--delete", "--exclude", "/target", "--exclude", "/.git",
                              "--exclude", "/book", REPO + "/", self.root + "/"])
        if rc != 0:
            raise Undecided("rsync of /repo failed: " + err[-300:])
        return self

    def __exit__(self, *a):
        if not os.environ.get("VERIF_KEEP_SCRATCH"):
            shutil.rmtree(os.path.dirname(self.root), ignore_errors=True)
        try:
            self._lock.close()
        except Exception:
            pass

    def path(self, rel):
        return os.path.join(self.root, rel)

    def read(self, rel):
        return open(self.path(rel)).read()

    def append(self, rel, text):
        """Append whole lines (cfg(kani)-guarded by the caller's text) at the end of a file."""
        p = self.path(rel)
        if not os.path.exists(p):
            raise Undecided("lost anchor: file %s does not exist" % rel)
        with open(p, "a") as f:
            f.write("\n" + text.rstrip("\n") + "\n")
        self.added.append((rel, text.count("\n") + 1))

    def insert_above_fn(self, rel, fn_name, attr_lines, within=None):
        """Insert whole attribute lines immediately above `fn fn_name` (no existing byte changes)."""
        src = self.read(rel)
        mask = rsx.code_mask(src)
        lo, hi = 0, len(src)
        if within:
            mm = rsx.find_code(src, mask, within)
            if not mm:
                raise Undecided("lost anchor: %s in %s" % (within, rel))
            lo, hi = rsx.block_after(src, mask, mm.start())
        ms = rsx.find_all_code(src, mask, r"\bfn\s+" + re.escape(fn_name) + r"\b", lo, hi)
        if len(ms) != 1:
            raise Undecided("lost anchor: fn %s in %s (%d matches)" % (fn_name, rel, len(ms)))
        ls = src.rfind("\n", 0, ms[0].start()) + 1
        # skip upwards over existing attributes / doc comments? keep simple: insert right above the fn line
        new = src[:ls] + attr_lines.rstrip("\n") + "\n" + src[ls:]
        open(self.path(rel), "w").write(new)
        self.added.append((rel, attr_lines.count("\n") + 1))

    def insert_after_line(self, rel, needle, text, within_fn=None, expect=1):
        """Insert whole lines after the unique line containing needle."""
        src = self.read(rel)
        lines = src.split("\n")
        hits = [i for i, l in enumerate(lines) if needle in l]
        if len(hits) != expect:
            raise Undecided("lost anchor: %r in %s (%d hits, expected %d)" % (needle, rel, len(hits), expect))
        for i in reversed(hits):
            lines[i + 1:i + 1] = text.rstrip("\n").split("\n")
        open(self.path(rel), "w").write("\n".join(lines))
        self.added.append((rel, text.count("\n") + 1))


KANI_ENV = {
    "CARGO_NET_OFFLINE": "true",
    "CARGO_PROFILE_DEV_DEBUG_ASSERTIONS": "false",
}


def _run_one(scratch, crate, harness, timeout, env, extra, unwind, cbmc_args, mem_gb):
    import signal
    import subprocess
    cmd = ["cargo", "kani", "-p", crate, "-Z", "function-contracts", "-Z", "stubbing", "--harness", harness]
    if unwind:
        cmd += ["--default-unwind", str(unwind)]
    if extra:
        cmd += extra
    if cbmc_args:
        cmd += ["--cbmc-args"] + cbmc_args
    shell = "ulimit -v %d; exec %s" % (mem_gb * 1024 * 1024, " ".join("'" + c + "'" for c in cmd))
    e = dict(os.environ)
    e.update(env)
    t0 = time.time()
    p = subprocess.Popen(["bash", "-c", shell], cwd=scratch.root, env=e, stdout=subprocess.PIPE, stderr=subprocess.PIPE,
                         text=True, start_new_session=True)
    timed_out = False
    try:
        out, err = p.communicate(timeout=timeout)
    except subprocess.TimeoutExpired:
        timed_out = True
        try:
            os.killpg(p.pid, signal.SIGKILL)
        except ProcessLookupError:
            pass
        out, err = p.communicate()
    secs = time.time() - t0
    log = os.path.join(WORK, scratch.prop, "kani-%s-%s.log" % (crate, re.sub(r"\W", "_", harness)[:60]))
    os.makedirs(os.path.dirname(log), exist_ok=True)
    open(log, "w").write("$ " + " ".join(cmd) + "\n" + (out or "") + "\n--- stderr ---\n" + (err or ""))
    # `--harness X` matches by substring: pick the block of the harness whose short name is exactly X
    blocks = parse_kani(out or "", err or "", [harness])
    r = blocks.get(harness) or analyse_body(out or "")
    r.update({"log": log, "cmd": " ".join(cmd), "wall": secs, "timeout": timed_out, "rc": p.returncode,
              "stubs": re.findall(r"- Stub: (.*)", out or "")})
    err = err or ""
    if timed_out:
        r["status"] = "timeout"
    elif "internal compiler error" in err or "Kani unexpectedly panicked" in err or "error: internal compiler" in err:
        r["status"] = "ice"
        r["detail"] = err[-1500:]
    elif "error: could not compile" in err or re.search(r"^error(\[E\d+\])?:", err, re.M) and "VERIFICATION" not in (out or ""):
        r["status"] = "compile-error"
        r["detail"] = err[-2500:]
    elif "CBMC failed with status" in (out or "") or "out of memory" in (out or "").lower() or "std::bad_alloc" in (out + err):
        r["status"] = "cbmc-crash"
    elif "no harnesses matched" in (out + err):
        r["status"] = "missing"
    return r


def run_kani(scratch, crate, harnesses, timeout=900, jobs=None, extra=None, unwind=None, cbmc_args=None,
             debug_assertions=False, mem_gb=24):
    """Run cargo kani, one process per harness (in parallel); returns {harness: result dict}.
    status: ok | failed | unwind | unsupported | timeout | cbmc-crash | compile-error | ice | missing | no-verdict"""
    from concurrent.futures import ThreadPoolExecutor
    env = dict(KANI_ENV)
    if debug_assertions:
        env["CARGO_PROFILE_DEV_DEBUG_ASSERTIONS"] = "true"
    # one Kani build directory per property: cargo names the artefacts of a workspace member independently of where
    # the workspace lies, so checks of two properties running side by side would overwrite each other's GOTO files
    env["CARGO_TARGET_DIR"] = os.path.join(CACHE, "kani-target", scratch.prop)
    jobs = jobs or min(8, max(1, len(harnesses)))
    res = {}
    # first harness alone first (warms the shared build), the rest in parallel
    order = list(harnesses)
    with ThreadPoolExecutor(max_workers=jobs) as ex:
        futs = {h: ex.submit(_run_one, scratch, crate, h, timeout, env, extra, unwind, cbmc_args, mem_gb) for h in order}
        for h, f in futs.items():
            res[h] = f.result()
    return res


def run_kani_batch(scratch, crate, harnesses, timeout=1800, extra=None, mem_gb=24):
    """All harnesses in ONE cargo-kani process, sequentially (for many cheap harnesses)."""
    import signal
    import subprocess
    env = dict(os.environ)
    env.update(KANI_ENV)
    # one Kani build directory per property: cargo names the artefacts of a workspace member independently of where
    # the workspace lies, so checks of two properties running side by side would overwrite each other's GOTO files
    env["CARGO_TARGET_DIR"] = os.path.join(CACHE, "kani-target", scratch.prop)
    cmd = ["cargo", "kani", "-p", crate, "-Z", "function-contracts", "-Z", "stubbing"]
    for h in harnesses:
        cmd += ["--harness", h]
    if extra:
        cmd += extra
    shell = "ulimit -v %d; exec %s" % (mem_gb * 1024 * 1024, " ".join("'" + c + "'" for c in cmd))
    t0 = time.time()
    p = subprocess.Popen(["bash", "-c", shell], cwd=scratch.root, env=env, stdout=subprocess.PIPE, stderr=subprocess.PIPE,
                         text=True, start_new_session=True)
    timed_out = False
    try:
        out, err = p.communicate(timeout=timeout)
    except subprocess.TimeoutExpired:
        timed_out = True
        try:
            os.killpg(p.pid, signal.SIGKILL)
        except ProcessLookupError:
            pass
        out, err = p.communicate()
    log = os.path.join(WORK, scratch.prop, "kani-%s-batch-%s.log" % (crate, re.sub(r"\W", "_", harnesses[0])[:40]))
    os.makedirs(os.path.dirname(log), exist_ok=True)
    open(log, "w").write("$ " + " ".join(cmd) + "\n" + (out or "") + "\n--- stderr ---\n" + (err or ""))
    res = parse_kani(out or "", err or "", harnesses)
    short = "cargo kani -p %s -Z function-contracts -Z stubbing --harness <%d harnesses>" % (crate, len(harnesses))
    for h in harnesses:
        r = res.setdefault(h, {"status": "missing", "failed_checks": []})
        r.update({"log": log, "cmd": short, "wall": time.time() - t0, "timeout": timed_out})
        if r["status"] == "missing":
            if timed_out:
                r["status"] = "timeout"
            elif "internal compiler error" in (err or "") or "Kani unexpectedly panicked" in (err or ""):
                r["status"], r["detail"] = "ice", (err or "")[-1500:]
            elif "error: could not compile" in (err or "") or re.search(r"^error(\[E\d+\])?:", err or "", re.M):
                r["status"], r["detail"] = "compile-error", (err or "")[-2500:]
    return res


def parse_kani(out, err, harnesses):
    """Split Kani's output per harness."""
    res = {}
    txt = out
    # regular format: "Checking harness <name>..." ... "VERIFICATION:- SUCCESSFUL|FAILED"
    parts = re.split(r"Checking harness ([\w:]+)\.\.\.", txt)
    # parts = [pre, name1, body1, name2, body2 ...]
    for i in range(1, len(parts), 2):
        name, body = parts[i], parts[i + 1]
        short = name.split("::")[-1]
        r = analyse_body(body)
        r["stubs"] = re.findall(r"- Stub: (.*)", body)
        for h in harnesses:
            if h == name or h.split("::")[-1] == short:
                res[h] = r
    # terse / parallel format prints "Thread N: Checking harness name..." then results blocks; also handled above.
    if not res:
        # fall back on summary lines "Verification failed for - name" / "Complete - N successfully verified"
        for h in harnesses:
            if re.search(r"Verification failed for - .*" + re.escape(h.split("::")[-1]), txt):
                res[h] = {"status": "failed", "failed_checks": [], "body": txt[-3000:]}
    return res


def analyse_body(body):
    r = {"body": body[-6000:]}
    m = re.search(r"VERIFICATION:- (SUCCESSFUL|FAILED)", body)
    failed = re.findall(r"Failed Checks: (.*)\n\s*File: \"([^\"]*)\", line (\d+), in (\S+)", body)
    r["failed_checks"] = [{"desc": d, "file": f, "line": int(l), "fn": fn} for d, f, l, fn in failed]
    if not failed:
        r["failed_checks"] = [{"desc": d, "file": "", "line": 0, "fn": ""} for d in re.findall(r"Failed Checks: (.*)", body)]
    mm = re.search(r"\*\* (\d+) of (\d+) failed", body)
    if mm:
        r["checks_failed"], r["checks_total"] = int(mm.group(1)), int(mm.group(2))
    cov = re.search(r"\*\* (\d+) of (\d+) cover properties satisfied", body)
    if cov:
        r["covers_sat"], r["covers_total"] = int(cov.group(1)), int(cov.group(2))
    t = re.search(r"Verification Time: ([\d.]+)s", body)
    if t:
        r["seconds"] = float(t.group(1))
    unw = [c for c in r["failed_checks"] if "unwinding assertion" in c["desc"]]
    unsupported = [c for c in r["failed_checks"] if "is not currently supported" in c["desc"] or "unsupported" in c["desc"].lower()]
    if m is None:
        r["status"] = "no-verdict"
    elif m.group(1) == "SUCCESSFUL":
        r["status"] = "ok"
    else:
        real = [c for c in r["failed_checks"] if c not in unw and c not in unsupported]
        if real:
            r["status"] = "failed"
        elif unw:
            r["status"] = "unwind"
        elif unsupported:
            r["status"] = "unsupported"
        else:
            # FAILED with no failed checks listed: e.g. unsatisfied cover only or "UNDETERMINED"
            r["status"] = "failed-unknown"
    return r
