"""E1 back end: run single-file Verus on an assembled unit and classify the outcome."""
import json
import os
import re
from engine.core import sh, Undecided, WORK

VERUS_CMD = "verus {file} --output-json --time --multiple-errors 10 --triggers-mode silent --rlimit 30"

FAIL_KINDS = ("postcondition not satisfied", "assertion failed", "invariant not satisfied",
              "precondition not satisfied", "possible arithmetic underflow/overflow",
              "decreases not satisfied", "possible division by zero", "recommendation not met",
              "loop invariant", "possible bit shift", "unreachable", "might not be allowed",
              "possibly", "cannot show", "index out of bounds", "not satisfied", "termination")


def run_verus(prop, unit_name, text, timeout=600):
    d = os.path.join(WORK, prop)
    os.makedirs(d, exist_ok=True)
    f = os.path.join(d, unit_name + ".rs")
    open(f, "w").write(text)
    cmd = VERUS_CMD.format(file=f)
    rc, out, err, secs = sh(cmd, cwd=d, timeout=timeout)
    if rc == -9:
        raise Undecided("verus timeout on unit " + unit_name)
    i = out.find("{")
    data = None
    if i >= 0:
        try:
            data = json.loads(out[i:])
        except Exception:
            data = None
    if data is None or "verification-results" not in data:
        raise Undecided("verus produced no result for unit %s (compile error / unsupported construct): %s"
                        % (unit_name, (err or out)[-1500:].replace("\n", " | ")))
    vr = data["verification-results"]
    if vr.get("encountered-vir-error"):
        raise Undecided("verus VIR error (unsupported construct) in unit %s: %s" % (unit_name, err[-1500:].replace("\n", " | ")))
    if re.search(r"^error\[E\d+\]", err, re.M):
        raise Undecided("rustc error in unit %s: %s" % (unit_name, err[-1500:].replace("\n", " | ")))
    funcs = {}
    ftimes = {}
    smt_ms = 0
    try:
        for m in data["times-ms"]["smt"]["smt-run-module-times"]:
            for fb in m.get("function-breakdown", []):
                name = fb["function"].split("::", 1)[-1]
                ok = bool(fb["success"])
                funcs[name] = funcs.get(name, True) and ok
                ftimes[name] = ftimes.get(name, 0) + fb.get("time-micros", 0) / 1e6
                smt_ms += fb.get("time", 0)
    except KeyError:
        pass
    rlimit = "rlimit" in err.lower() and "exceeded" in err.lower()
    # split stderr into error blocks
    blocks = [b for b in re.split(r"\n(?=error)", "\n" + err) if b.strip().startswith("error")]
    blocks = [b for b in blocks if not b.startswith("error: aborting")]
    return {"file": f, "cmd": cmd, "funcs": funcs, "verified": vr.get("verified", 0), "errors": vr.get("errors", 0),
            "stderr": err, "error_blocks": blocks, "seconds": secs, "smt_seconds": smt_ms / 1000.0,
            "rlimit": rlimit, "ftimes": ftimes, "version": data.get("verus", {}).get("version")}


def record(report, res, expect_functions, prefix, source_note):
    """Turn a Verus run into per-function obligations in the report."""
    if res["rlimit"]:
        raise Undecided("verus resource limit exceeded: " + res["stderr"][-600:].replace("\n", " | "))
    report.backends.add("verus %s / z3" % res["version"])
    report.solver_s += res["smt_seconds"]
    report.checker_cmds.append(res["cmd"].replace(res["file"], os.path.relpath(res["file"], os.path.dirname(WORK))))
    missing = [f for f in expect_functions if not any(k == f or k.endswith("::" + f) for k in res["funcs"])]
    if missing:
        raise Undecided("expected obligations were not generated (vacuity guard 1): %s" % missing)
    failed = []
    for name, ok in sorted(res["funcs"].items()):
        report.obligation(prefix + name, "verus/z3", ok, seconds=res["ftimes"].get(name, 0.0), detail="" if ok else "see stderr", complete=True)
        if not ok:
            failed.append(name)
    return failed


def blocks_for(res, fn_names):
    """Error blocks of the Verus stderr (all; Verus does not tag them with the function)."""
    return "\n".join(res["error_blocks"])[-5000:]
