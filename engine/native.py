"""Plain `cargo run` of a replay / enumerator crate against the real crates (path deps to the tree under check)."""
import os
import shutil
from engine.core import sh, Undecided, SCRATCH_ROOT, CACHE, VERIF, REPO


def run_replay(prop, crate_dir_name, args, repo_root=None, extra_files=None, timeout=1200, toolchain_env=None):
    """Copy replay_src/<crate_dir_name> to scratch, point its path deps at repo_root, build + run.
    returns (rc, stdout, stderr)."""
    repo_root = repo_root or REPO
    src = os.path.join(VERIF, "replay_src", crate_dir_name)
    dst = os.path.join(SCRATCH_ROOT, prop, "replay_" + crate_dir_name)
    shutil.rmtree(dst, ignore_errors=True)
    os.makedirs(os.path.dirname(dst), exist_ok=True)
    shutil.copytree(src, dst)
    ct = open(os.path.join(dst, "Cargo.toml")).read().replace("@REPO@", repo_root)
    open(os.path.join(dst, "Cargo.toml"), "w").write(ct)
    lock = os.path.join(repo_root, "Cargo.lock")
    if os.path.exists(lock):
        shutil.copy(lock, os.path.join(dst, "Cargo.lock"))
    for rel, text in (extra_files or {}).items():
        open(os.path.join(dst, rel), "w").write(text)
    env = {"CARGO_TARGET_DIR": os.path.join(CACHE, "native-target"), "RUSTFLAGS": "-Awarnings"}
    if toolchain_env:
        env.update(toolchain_env)
    rc, out, err, secs = sh(["cargo", "run", "--offline", "-q", "--"] + list(args), cwd=dst, env=env, timeout=timeout)
    if not os.environ.get("VERIF_KEEP_SCRATCH"):
        shutil.rmtree(dst, ignore_errors=True)
    if rc == 101 and "could not compile" in err:
        raise Undecided("replay crate %s does not compile against the tree: %s" % (crate_dir_name, err[-1200:].replace("\n", " | ")))
    return rc, out, err, secs
