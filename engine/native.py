"""Plain `cargo run` of a replay / enumerator crate against the real crates (path deps to the tree under check)."""
import os
import re
import shutil
from engine.core import sh, Undecided, SCRATCH_ROOT, CACHE, VERIF, REPO


def run_replay(prop, crate_dir_name, args, repo_root=None, extra_files=None, timeout=1200, toolchain_env=None):
    """Copy replay_src/<crate_dir_name> to scratch, point its path deps at repo_root, build + run.
    returns (rc, stdout, stderr)."""
    repo_root = repo_root or REPO
    src = os.path.join(VERIF, "replay_src", crate_dir_name)
    dst = os.path.join(SCRATCH_ROOT, prop, "replay_" + crate_dir_name)
    shutil.rmtree(dst, ignore_errors=True)
    os.makedirs(os.path.dirname(dst), exist_ok=True)
    shutil.copytree(src, dst)
    ct = open(os.path.join(dst, "Cargo.toml")).read().replace("@REPO@", repo_root)
    open(os.path.join(dst, "Cargo.toml"), "w").write(ct)
    lock = os.path.join(repo_root, "Cargo.lock")
    if os.path.exists(lock):
        shutil.copy(lock, os.path.join(dst, "Cargo.lock"))
    for rel, text in (extra_files or {}).items():
        open(os.path.join(dst, rel), "w").write(text)
    env = {"CARGO_TARGET_DIR": os.path.join(CACHE, "native-target"), "RUSTFLAGS": "-Awarnings"}
    if toolchain_env:
        env.update(toolchain_env)
    rc, out, err, secs = sh(["cargo", "run", "--offline", "-q", "--"] + list(args), cwd=dst, env=env, timeout=timeout)
    if not os.environ.get("VERIF_KEEP_SCRATCH"):
        shutil.rmtree(dst, ignore_errors=True)
    if rc == 101 and "could not compile" in err:
        raise Undecided("replay crate %s does not compile against the tree: %s" % (crate_dir_name, err[-1200:].replace("\n", " | ")))
    return rc, out, err, secs


def build_bin(prop, crate_dir_name, repo_root=None, timeout=1800):
    """Build a replay crate once against the tree under check; returns the path of the binary (to be run several
    times, e.g. one process per site when a failure kills the process)."""
    repo_root = repo_root or REPO
    src = os.path.join(VERIF, "replay_src", crate_dir_name)
    dst = os.path.join(SCRATCH_ROOT, prop, "replay_" + crate_dir_name)
    shutil.rmtree(dst, ignore_errors=True)
    os.makedirs(os.path.dirname(dst), exist_ok=True)
    shutil.copytree(src, dst)
    ct = open(os.path.join(dst, "Cargo.toml")).read().replace("@REPO@", repo_root)
    open(os.path.join(dst, "Cargo.toml"), "w").write(ct)
    lock = os.path.join(repo_root, "Cargo.lock")
    if os.path.exists(lock):
        shutil.copy(lock, os.path.join(dst, "Cargo.lock"))
    # a target dir per tree under check would be cleaner, but the cache is keyed by path deps anyway; the binary is
    # copied out so that a concurrent build of the same crate against another tree cannot replace it under us
    env = {"CARGO_TARGET_DIR": os.path.join(CACHE, "native-target"), "RUSTFLAGS": "-Awarnings"}
    rc, out, err, secs = sh(["cargo", "build", "--offline", "-q"], cwd=dst, env=env, timeout=timeout)
    if rc != 0:
        shutil.rmtree(dst, ignore_errors=True)
        raise Undecided("replay crate %s does not build against the tree: %s" % (crate_dir_name, err[-1200:].replace("\n", " | ")))
    name = re.search(r'name\s*=\s*"([^"]+)"', ct).group(1)
    binp = os.path.join(dst, name + ".bin")
    shutil.copy(os.path.join(CACHE, "native-target", "debug", name), binp)
    return binp, dst


def bounded_stand_in(rep, prop, crate, args, name, what, bound, functions, replay_hint, env=None):
    """Run a native exhaustive small-domain enumerator as a BOUNDED stand-in for functions that neither verifier
    can reach (stated in `functions`).  It is recorded under coverage.bounded_checks with backend
    'native exhaustive enumeration', never counted as proved.  A failing input is a confirmed violation."""
    rc, out, err, secs = run_replay(prop, crate, args, toolchain_env=env)
    ok = rc == 0
    if rc == 101:
        # the enumerator aborted on a panic: if the panic was raised INSIDE the tree under check (not by an unwrap of
        # the enumerator itself), the real code panicked on one of the enumerated inputs - a confirmed failure
        m = re.search(r"panicked at ([^\n:]+):(\d+)", err)
        if m and os.path.abspath(m.group(1)).startswith(os.path.abspath(REPO) + os.sep):
            rep.obligation("native:" + name, "native exhaustive enumeration (rustc, real crates)", False, seconds=secs,
                           detail=what + " | functions: " + functions, complete=False, bound=bound)
            rep.violation("native:" + name, "the code under check panicked on an enumerated input\n" + err[-1500:],
                          witness="panic at %s:%s" % (os.path.relpath(m.group(1), REPO), m.group(2)), replay_text=replay_hint, confirmed=True)
            return
    if rc not in (0, 1):
        rep.undecided.append("%s: enumerator did not run (rc=%s): %s" % (name, rc, (err or out)[-300:].replace("\n", " | ")))
        return
    rec = rep.obligation("native:" + name, "native exhaustive enumeration (rustc, real crates)", ok, seconds=secs,
                         detail=what + " | functions: " + functions + " | " + (out.strip().splitlines()[-1][:200] if out.strip() else ""),
                         complete=False, bound=bound)
    if not ok:
        rep.violation("native:" + name, "bounded stand-in failed\n" + out[-1500:], witness=out.strip().splitlines()[0] if out.strip() else None,
                      replay_text=replay_hint, confirmed=True)
