"""Glue between run_kani results and the Report."""
from engine import overlay
from engine.core import Undecided


class H:
    """One Kani harness: name, obligation text, complete (counted as proved) or bounded (with its bound)."""

    def __init__(self, name, what, complete=False, bound=None, tiers=("quick", "thorough"), timeout=900, covers_optional=False, stubs=True):
        self.name, self.what, self.complete, self.bound, self.tiers, self.timeout = name, what, complete, bound, tiers, timeout
        self.covers_optional = covers_optional
        self.stubs = stubs


def run_harnesses(rep, scratch, crate, harnesses, jobs=8, need_stubs=True, mem_gb=24, batch=False):
    """Runs the harnesses selected for rep.tier.  Returns list of (H, result) that FAILED (real assertion failures).
    Timeouts / crashes / unwinding failures / compile errors become `undecided` (exit 2)."""
    sel = [h for h in harnesses if rep.tier in h.tiers]
    if not sel:
        return []
    tmax = max(h.timeout for h in sel)
    if batch:
        res = overlay.run_kani_batch(scratch, crate, [h.name for h in sel], timeout=tmax, mem_gb=mem_gb)
    else:
        res = overlay.run_kani(scratch, crate, [h.name for h in sel], timeout=tmax, jobs=jobs, mem_gb=mem_gb)
    failed = []
    for h in sel:
        r = res[h.name]
        st = r["status"]
        rep.checker_cmds.append(r["cmd"]) if r["cmd"] not in rep.checker_cmds else None
        secs = r.get("seconds", r.get("wall", 0.0)) or 0.0
        rep.solver_s += secs
        name = "kani:%s::%s" % (crate, h.name)
        if st == "ok":
            if need_stubs and h.stubs and not r.get("stubs"):
                rep.undecided.append("%s: expected `- Stub:` lines missing (vacuity guard 4)" % h.name)
            if r.get("covers_total") and r.get("covers_sat") != r.get("covers_total") and not h.covers_optional:
                rep.undecided.append("%s: only %s of %s cover statements reached (vacuity guard 2)" % (h.name, r.get("covers_sat"), r.get("covers_total")))
            rec = rep.obligation(name, "kani 0.68 / cbmc 6.11 (cadical)", True, seconds=secs, detail=h.what, complete=h.complete, bound=h.bound)
            rec["checks"] = r.get("checks_total")
            if r.get("covers_total") is not None:
                rec["covers"] = "%s/%s" % (r.get("covers_sat"), r.get("covers_total"))
        elif st == "failed":
            rep.obligation(name, "kani 0.68 / cbmc 6.11 (cadical)", False, seconds=secs, detail=h.what, complete=h.complete, bound=h.bound)
            failed.append((h, r))
        else:
            rep.undecided.append("%s: kani status %s (log %s) %s" % (h.name, st, r.get("log"), (r.get("detail") or "")[-400:].replace("\n", " | ")))
    return failed


def describe_failure(r):
    return "\n".join("%s  [%s:%s in %s]" % (c["desc"], c["file"], c["line"], c["fn"]) for c in r.get("failed_checks", [])) + "\n" + r.get("body", "")[-1500:]
