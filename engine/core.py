"""Verdicts, evidence, known findings.  Shared by every property check."""
import json
import os
import re
import shutil
import subprocess
import sys
import time

VERIF = os.path.dirname(os.path.dirname(os.path.abspath(__file__)))
REPO = os.environ.get("VERIF_REPO", "/repo")
SCRATCH_ROOT = os.environ.get("VERIF_SCRATCH", "/var/tmp/verif-scratch")
CACHE = os.environ.get("VERIF_CACHE", os.path.join(VERIF, ".cache"))
WORK = os.environ.get("VERIF_WORK", os.path.join(VERIF, "work"))
# evidence is always written to /verif/evidence unless a seeded-change trial redirects it (tools/try_seed.sh)
EVIDENCE = os.environ.get("VERIF_EVIDENCE", os.path.join(VERIF, "evidence"))
REPLAY_OUT = os.environ.get("VERIF_REPLAY_OUT", os.path.join(VERIF, "replay"))


class Undecided(Exception):
    """Lost anchor, unsupported construct, timeout, OOM ...: exit 2, never a violation."""


def sh(cmd, cwd=None, env=None, timeout=None, stdin=None):
    e = dict(os.environ)
    e.update({"CARGO_NET_OFFLINE": "true"})
    if env:
        e.update(env)
    t0 = time.time()
    try:
        p = subprocess.run(cmd, cwd=cwd, env=e, timeout=timeout, input=stdin,
                           stdout=subprocess.PIPE, stderr=subprocess.PIPE, text=True,
                           shell=isinstance(cmd, str))
        return p.returncode, p.stdout, p.stderr, time.time() - t0
    except subprocess.TimeoutExpired as ex:
        out = ex.stdout if isinstance(ex.stdout, str) else (ex.stdout or b"").decode(errors="replace")
        err = ex.stderr if isinstance(ex.stderr, str) else (ex.stderr or b"").decode(errors="replace")
        return -9, out, err + "\nTIMEOUT", time.time() - t0


def load_known_findings():
    p = os.path.join(VERIF, "known_findings.json")
    if not os.path.exists(p):
        return {"findings": [], "fixed": []}
    return json.load(open(p))


class Report:
    def __init__(self, prop, tier, seed, level):
        self.prop, self.tier, self.seed, self.level = prop, tier, seed, level
        self.t0 = time.time()
        self.obligations = []   # proved-for-all-inputs obligations (Verus / complete Kani)
        self.bounded = []       # bounded stand-ins, never counted as proved
        self.assumptions = []
        self.functions = []     # functions under contract
        self.rewrites = {}
        self.cuts = {}
        self.backends = set()
        self.solver_s = 0.0
        self.violations = []    # dicts: obligation, witness, replay, detail, known
        self.undecided = []
        self.notes = []
        self.guards = []        # vacuity guards that ran (name, ok)
        self.checker_cmds = []
        self.not_covered = []
        os.makedirs(os.path.join(WORK, prop), exist_ok=True)

    # -- recording ---------------------------------------------------------
    def obligation(self, name, backend, ok, seconds=0.0, detail="", complete=True, bound=None):
        rec = {"name": name, "backend": backend, "status": "discharged" if ok else "failed",
               "seconds": round(seconds, 3)}
        if detail:
            rec["detail"] = detail[:2000]
        if complete:
            self.obligations.append(rec)
        else:
            rec["bound"] = bound or "unspecified"
            self.bounded.append(rec)
        self.backends.add(backend)
        return rec

    def assume(self, text):
        if text not in self.assumptions:
            self.assumptions.append(text)

    def guard(self, name, ok, detail=""):
        self.guards.append({"guard": name, "ok": bool(ok), "detail": detail[:500]})
        if not ok:
            self.undecided.append("vacuity guard failed: " + name + " " + detail[:300])

    def violation(self, obligation, detail, witness=None, replay_text=None, confirmed=False):
        """Record a failed obligation.  witness: a short string identifying the failing
        input / call site (matched against known_findings.json)."""
        d = os.path.join(REPLAY_OUT, self.prop)
        os.makedirs(d, exist_ok=True)
        safe = re.sub(r"[^A-Za-z0-9_.-]", "_", obligation)[:80]
        path = os.path.join(d, safe + ".json")
        rec = {"property": self.prop, "obligation": obligation, "witness": witness,
               "confirmed_on_real_code": bool(confirmed), "verifier_output": detail[-6000:],
               "replay": replay_text}
        json.dump(rec, open(path, "w"), indent=1)
        self.violations.append({"obligation": obligation, "witness": witness, "replay": path,
                                "confirmed": confirmed})

    # -- finishing ---------------------------------------------------------
    def finish(self):
        kf = load_known_findings()
        known = [f for f in kf.get("findings", []) if f.get("property") == self.prop]
        new, seen_known = [], []
        for v in self.violations:
            hit = None
            for f in known:
                if f.get("obligation") == v["obligation"] and (f.get("witness") is None or f.get("witness") == v["witness"]):
                    hit = f
                    break
            if hit is not None and v["witness"] is not None:
                seen_known.append((hit, v))
            else:
                new.append(v)
        for hit, v in seen_known:
            print("KNOWN-FINDING: property=%s %s" % (self.prop, hit.get("what", v["obligation"])))
        # obligations that fail only because of a listed known finding are reported separately, not counted
        known_names = set(v["obligation"] for _, v in seen_known)
        known_obls = [o for o in self.obligations + self.bounded if o["name"] in known_names]
        self.obligations = [o for o in self.obligations if o["name"] not in known_names]
        self.bounded = [o for o in self.bounded if o["name"] not in known_names]
        n_obl = len(self.obligations)
        n_dis = sum(1 for o in self.obligations if o["status"] == "discharged")
        cov = {
            "obligations": n_obl,
            "discharged": n_dis,
            "checker_cmd": " ; ".join(self.checker_cmds) or "n/a",
            "trusted_base": self.assumptions,
            "functions_under_contract": self.functions,
            "obligation_list": self.obligations,
            "bounded_checks": self.bounded,
            "bounded_checks_passed": sum(1 for b in self.bounded if b["status"] == "discharged"),
            "backends": sorted(self.backends),
            "solver_seconds": round(self.solver_s, 2),
            "rewrites_fired": self.rewrites,
            "cut_sha256_16": self.cuts,
            "vacuity_guards": self.guards,
            "not_covered": self.not_covered,
            "known_finding_obligations": known_obls,
            "assumption_markers_in_contracts": scan_assumption_markers([os.path.join(VERIF, "contracts"), os.path.join(VERIF, "units")]),
            "undecided": self.undecided,
            "samples": ([o["name"] for o in self.obligations] + [b["name"] + " [bounded: " + str(b["bound"]) + "]" for b in self.bounded])[:40] or ["none"],
            "evaluations": max(1, n_obl + len(self.bounded)),
            "distinct_nontrivial": len(set([o["name"] for o in self.obligations if o["status"] == "discharged"] + [b["name"] for b in self.bounded if b["status"] == "discharged"])),
            "rule": "one evaluation per obligation / bounded harness generated from /repo's current source; non-trivial = verifier reported it checked (and, for Kani, every cover statement reached)",
            "explanation": "; ".join(self.notes),
        }
        ev = {
            "property_id": self.prop, "tier": self.tier, "seed": self.seed, "level": self.level,
            "coverage": cov, "assumptions": self.assumptions,
            "wall_s": round(time.time() - self.t0, 2), "violations": len(new),
            "known_findings_seen": [h.get("what") for h, _ in seen_known],
        }
        os.makedirs(EVIDENCE, exist_ok=True)
        json.dump(ev, open(os.path.join(EVIDENCE, self.prop + ".json"), "w"), indent=1)
        for v in new:
            tail = "" if v["confirmed"] else " no-failing-input-found"
            print("VIOLATION property=%s replay=%s%s" % (self.prop, v["replay"], tail))
            print("  failed obligation: %s" % v["obligation"])
        if new:
            return 1
        if self.undecided:
            for u in self.undecided:
                print("UNDECIDED property=%s reason=%s" % (self.prop, u))
            return 2
        print("OK property=%s tier=%s proved=%d/%d bounded=%d wall=%.1fs" % (
            self.prop, self.tier, n_dis, n_obl, len(self.bounded), time.time() - self.t0))
        return 0


def scan_assumption_markers(paths):
    """Mechanical scan for assume / admit / external_body / assume_specification / kani::stub."""
    pats = ["assume(", "admit(", "external_body", "assume_specification", "kani::stub", "external_trait_specification",
            "external_type_specification", "kani::assume"]
    hits = {}
    for root in paths:
        for dp, _, fs in os.walk(root):
            for f in fs:
                if not f.endswith((".rs", ".py")):
                    continue
                t = open(os.path.join(dp, f), errors="replace").read()
                for p in pats:
                    c = t.count(p)
                    if c:
                        hits.setdefault(p, 0)
                        hits[p] += c
    return hits
