"""C20 Native values <-> typed literals.

Kani on the real sophia_api (add-only overlay in api/src/term/_native_literal.rs):
 complete (full domain, digit loops bounded by the type width, unwinding assertions on):
   every i32 / isize / usize has a lexical form in the xsd:integer lexical space; both bools round-trip.
 bounded (representatives): f64 +inf, -inf, NaN have lexical forms INF, -INF, NaN.
Gap (stated): finite f64 formatting/parsing (Grisu/Dragon, dec2flt) and the full-domain integer round trip
parse(format(x)) == x do not finish in CBMC.
"""
import json
from engine import core, overlay, native, kani_unit
from engine.kani_unit import H
from contracts import common

LEVEL = "proof"
ID = "C20"

HARNESSES = [
    H("c20_i32_lexical_form", "for all i32 x: x.lexical_form() matches [+-]?[0-9]+ and has <= 11 bytes", complete=True, timeout=1500),
    H("c20_i32_min_denotes", "i32::MIN.lexical_form() == \"-2147483648\"", bound="concrete extreme", timeout=600),
    H("c20_i32_max_denotes", "i32::MAX.lexical_form() == \"2147483647\"", bound="concrete extreme", timeout=600),
    H("c20_i32_zero_denotes", "0i32.lexical_form() == \"0\"", bound="concrete value", timeout=600),
    H("c20_isize_min_denotes", "isize::MIN.lexical_form() == \"-9223372036854775808\"", bound="concrete extreme", timeout=600),
    H("c20_usize_max_denotes", "usize::MAX.lexical_form() == \"18446744073709551615\"", bound="concrete extreme", timeout=600),
    H("c20_i32_small_denotes", "for all i32 in (-100, 100): the lexical form denotes the value (harness decimal evaluator)", bound="|x| < 100", timeout=1200),
    H("c20_bool_roundtrip", "both bools: lexical form true/false, datatype xsd:boolean, bool::try_from_term(b) == Ok(b)", complete=True, timeout=600),
    H("c20_f64_pos_inf", "f64::INFINITY.lexical_form() == \"INF\"", complete=False, bound="representative value +inf", timeout=600),
    H("c20_f64_neg_inf", "f64::NEG_INFINITY.lexical_form() == \"-INF\"", complete=False, bound="representative value -inf", timeout=600),
    H("c20_f64_nan", "f64::NAN.lexical_form() == \"NaN\"", complete=False, bound="representative value NaN (one payload)", timeout=600),
    # c20_isize_lexical_form exists in the overlay but is not run: it needs ~11 min and sometimes more than 24 GB
    # (measured: ok in 665 s once, out of memory once); usize covers the 20-digit formatting path
    H("c20_usize_lexical_form", "for all usize x: lexical form in xsd:integer, <= 20 bytes", complete=True, tiers=("thorough",), timeout=3000),
]


def run(rep):
    rep.assume(common.ASSUMPTION)
    rep.assume("Kani/CBMC bit-precise semantics of core::fmt integer formatting as compiled from the installed toolchain's library sources")
    rep.assume("debug assertions off under Kani (CARGO_PROFILE_DEV_DEBUG_ASSERTIONS=false): new_unchecked is a plain wrap")
    rep.functions += ["<i32|isize|usize|bool|f64 as Term>::lexical_form / datatype, <bool as TryFromTerm>::try_from_term (api/src/term/_native_literal.rs)"]
    with overlay.Scratch(ID) as s:
        common.apply_common(s)
        s.append("api/src/term/_native_literal.rs", common.expand(open(core.VERIF + "/contracts/native/kani_api.rs").read(), "api"))
        failed = kani_unit.run_harnesses(rep, s, "sophia_api", HARNESSES, jobs=8)
    if failed:
        rc, out, err, secs = native.run_replay(ID, "c20", [])
        witness, confirmed = (out.strip().splitlines()[-1], True) if rc == 1 else (None, False)
        for h, r in failed:
            rep.violation("kani:sophia_api::" + h.name, kani_unit.describe_failure(r), witness=witness,
                          replay_text="./check C20 --replay <this file>   # replay_src/c20 on the real sophia_api", confirmed=confirmed)
    # bounded native stand-in for the conversions CBMC cannot execute (f64 Display = Grisu/Ryu, str::parse = dec2flt,
    # i32/isize/usize parse): the replay enumerator
    native.bounded_stand_in(rep, ID, "c20", [], "c20_values_round_trip",
                            "lexical form in the datatype's lexical space and try_from_term(x) == x (bit for bit for f64, also through a SimpleTerm literal) on sampled values; try_from_term on short lexical forms never panics and returns the denoted value",
                            "integers -1000..1000, 10^k +- 1, type extremes; 200 000 pseudo-random f64 bit patterns (fixed seed), a 17-digit mantissa at every decimal exponent, 2^k and its two neighbours for every binary exponent, 20 hand-picked doubles; all lexical forms of <= 2 characters over an 8-letter alphabet; xsd:boolean forms; 36 malformed double / float forms incl. signed NaN; 468 non-ASCII datatype IRIs of the byte lengths of the XSD IRIs (no panic, no success)",
                            "<f64 as Term>::lexical_form (finite values), <f64|i32|isize|usize as TryFromTerm>::try_from_term (api/src/term/_native_literal.rs)",
                            "./check C20 --replay <this file>   # replay_src/c20")
    rep.not_covered += ["finite f64 values beyond the sampled ones (shortest round-trip formatting / dec2flt are out of CBMC's reach: bounded native stand-in only)", "isize full-domain lexical space (CBMC memory; usize and i32 are covered)",
                        "full-domain 'lexical form denotes x' / round trip parse(format(x)) == x (CBMC does not finish: > 50 min); proved: lexical space for every value; denotation only at the extremes, zero and |x| < 100",
                        "try_from_term on arbitrary lexical forms of the whitelisted datatypes"]


def replay(path):
    rec = json.load(open(path))
    rc, out, err, secs = native.run_replay(ID, "c20", [])
    print(out.strip()[-1500:])
    print("replay of %s: %s" % (rec["obligation"], "VIOLATION REPRODUCED" if rc == 1 else "no failing input in the enumerated domain"))
    return 1 if rc == 1 else 0
