"""C15 Streams deliver exactly the prefix before a failure and blame the right side.

Kani on the real sophia_api / sophia_rio (add-only overlay):
 complete (loop-free over symbolic outcome, symbolic adapter parameters, symbolic sink result):
   the step contract of Source::try_for_some_item for the Iterator source and all 39 adapter chains of depth <= 3;
   the step contract of the three Rio adapters against a stub parser emitting 0..2 statements then Ok/Err.
 bounded (K = 3 outcomes): whole-stream driving try_for_each_item (bare and through filter+map),
   MutableGraph::insert_all / remove_all against a store that fails at item k ("index full") with exact counts.
"""
import json
from engine import core, overlay, native, kani_unit, verus
from engine.kani_unit import H
from contracts.source import gen

LEVEL = "proof"
ID = "C15"


def run(rep):
    names, text = gen.generate(3)
    steps = [H(n, "step contract of try_for_some_item for chain `%s` (f=filter_items, m=map_items, x=filter_map_items): "
                  "end -> Ok(false), f not called; source error -> SourceError(e), f not called; item -> f called once with the "
                  "mapped item iff it passes, Ok(true) or SinkError(e')" % (n[len("c15_step_"):]), complete=True, timeout=1800) for n in names]
    streams = [
        H("c15_stream_iter_k3", "try_for_each_item over an Iterator source: consumer sees exactly the accepted prefix, in order; error side and value", bound="K = 3 outcomes", timeout=1800),
        H("c15_stream_chain_k3", "try_for_each_item through filter_items+map_items", bound="K = 3 outcomes", timeout=1800),
        H("c15_insert_all_k3", "MutableGraph::insert_all: prefix, count of effective insertions, SourceError/SinkError", bound="K = 3 outcomes", timeout=1800),
        H("c15_remove_all_k3", "MutableGraph::remove_all: prefix, count of effective removals, SourceError/SinkError", bound="K = 3 outcomes", timeout=1800),
        H("c15_dataset_insert_all_k3", "MutableDataset::insert_all: prefix, each quad in its own graph, count, SourceError/SinkError", bound="K = 3 outcomes", timeout=1800),
        H("c15_dataset_remove_all_k3", "MutableDataset::remove_all: same", bound="K = 3 outcomes", timeout=1800),
        H("c15_stream_batch_chain_k3", "a source handing several items per try_for_some_item call (statement-wise parser) through filter+map: prefix, no call after the consumer's failure, blame", bound="K = 3 outcomes, batch 1..3", timeout=1800),
        H("c15_for_each_item_k3", "for_each_item / step-wise for_some_item with an infallible consumer: prefix before a source fault, error value", bound="K = 3 outcomes", timeout=1800),
    ]
    rio = [H(n, "step contract of %s against a stub Rio parser (0..2 statements, then Ok or its own error; consumer may fail on any item); "
                "the stub returns after the two statements, so the harness loops are bounded by construction" % n, complete=True, timeout=1200)
           for n in ("c15_rio_triples_step", "c15_rio_quads_step", "c15_rio_generalized_step")]
    rep.functions += ["impl Source for I: Iterator::try_for_some_item, Source::try_for_each_item (api/src/source.rs)",
                      "FilterSource / MapSource / FilterMapSource::try_for_some_item (api/src/source/{filter,map,filter_map}.rs)",
                      "MutableGraph::insert_all / remove_all (api/src/graph.rs), MutableDataset::insert_all / remove_all (api/src/dataset.rs), Source::for_each_item / for_some_item, TripleSource::try_for_each_triple / QuadSource::try_for_each_quad",
                      "StrictRioTripleSource / StrictRioQuadSource / GeneralizedRioSource::try_for_some_item (rio/src/parser.rs)"]
    rep.assume("Kani/CBMC; harness error types ErrA/ErrB, symbolic predicate x&mask!=0 and map x^k stand for arbitrary pure closures over u8 items")
    rep.assume("Rio parsers stop at the first callback error and report their own errors through From (the stub does; real rio_turtle is not run)")
    # whole-stream statement: induction over the stream from the step contract (Verus, spec level, unbounded)
    lem = verus.run_verus(ID, "prefix_lemma", open(core.VERIF + "/contracts/source/prefix_lemma.rs").read())
    lfailed = verus.record(rep, lem, ["lemma_prefix", "witness_lemma_prefix"], "verus:prefix::", "")
    for f in lfailed:
        rep.violation("verus:prefix::" + f, verus.blocks_for(lem, [f]), witness=None, replay_text="spec-level lemma; no input involved", confirmed=False)
    rep.assume("lemma_prefix is a lemma over the step contract's specification (no extracted code): it links 'every step obeys the step contract' to 'the driver consumes exactly the accepted prefix'; that the real driver loop IS that iteration is checked by the bounded K=3 harnesses")
    failed = []
    with overlay.Scratch(ID) as s:
        s.append("api/src/source.rs", text.replace("mod verif_c15 {", "pub(crate) mod verif_c15 {")
                 + open(core.VERIF + "/contracts/source/kani_bulk.rs").read() + open(core.VERIF + "/contracts/source/kani_more.rs").read())
        s.append("rio/src/parser.rs", open(core.VERIF + "/contracts/source/kani_rio.rs").read())
        failed += kani_unit.run_harnesses(rep, s, "sophia_api", steps + streams, need_stubs=False, batch=True)
        failed += kani_unit.run_harnesses(rep, s, "sophia_rio", rio, need_stubs=False, batch=True)
    # bounded stand-in for what CBMC cannot reach (VecDeque buffering of the IntoIterator adapters: out of memory at
    # K = 3; real Turtle parser as a source): exhaustive native enumeration over a small domain, labelled as such
    native.bounded_stand_in(rep, ID, "c15", [], "c15_enumerator",
                            "all outcome sequences of length <= 4 over {end, Ok(1..3), Err}: 7 adapter chains x every sink fault position x step-wise/whole-stream; map/filter_map .into_iter() over batching sources (batch 1..3); batching source through filter+map; Turtle parser source with multi-triple statements and sink faults at every position; the TripleSource / QuadSource layers (try_for_each_triple / _quad, filter_ / map_ / filter_map_ triples and quads, to_quads / to_triples, for_each_triple, size hints) over every outcome sequence x sink fault position; real stores as consumers (insert_all / remove_all / collect into Fast/Light graphs and datasets, HashSet, BTreeSet, Vec) with the source failing at every position of streams of <= 4 items: exactly the items before the failure are in the store",
                            "sequences <= 4, batch <= 3", "MapSourceIterator::next / FilterMapSourceIterator::next (api/src/source/map.rs, filter_map.rs), sophia_turtle parser sources (rio_turtle underneath), insert_all / remove_all / CollectibleGraph / CollectibleDataset of the in-memory stores and std containers (inmem/src/graph.rs, dataset.rs, api/src/*/_foreign_impl.rs)",
                            "./check C15 --replay <this file>")
    if failed:
        rc, out, err, secs = native.run_replay(ID, "c15", [])
        witness, confirmed = (out.strip().splitlines()[-1], True) if rc == 1 else (None, False)
        for h, r in failed:
            rep.violation("kani:" + h.name, kani_unit.describe_failure(r), witness=witness,
                          replay_text="./check C15 --replay <this file>   # replay_src/c15: outcome sequences <= 4, 7 chains, all fault positions on the real sophia_api",
                          confirmed=confirmed)
    rep.not_covered += ["the Triple/Quad wrapper sources (forwarding only)", "serializer sinks with a failing writer", "collect_triples / collect_quads", "IntoIterator forms of the adapters beyond the native bounded stand-in (CBMC out of memory on VecDeque)",
                        "streams longer than 3 items for the whole-stream drivers (the step contract is unbounded)"]
    rep.notes.append("the whole-stream property follows from the step contract by induction on the stream (lemma_prefix, Verus); bounded runs of the real loop drivers link the lemma's `drive` to the real `while try_for_some_item(..)? {}`")


def replay(path):
    rec = json.load(open(path))
    rc, out, err, secs = native.run_replay(ID, "c15", [])
    print(out.strip()[-1500:])
    print("replay of %s: %s" % (rec["obligation"], "VIOLATION REPRODUCED" if rc == 1 else "no failing input in the enumerated domain"))
    return 1 if rc == 1 else 0
