"""C01 In-memory graphs/datasets behave like a mathematical set.

Proved (Verus, unbounded, generic in the index type): insert/remove of the four store types against a
term-level set view, flags, 3-/6-index coherence, index-full leaves the quad sets untouched, unknown term =>
false and nothing changes; GraphNameIndex::get_graph_name_index default body.
Bounded (Kani): the real SimpleTermIndex meets the TermIndex stand-in contract (U-INDEX).
"""
import json
from engine import core, verus, native
from engine.core import Undecided
from engine.rsx import LostAnchor, RewriteRefused
from units import store, iters

LEVEL = "proof"
ID = "C01"


def run(rep):
    rep.assume("vstd's BTreeSet specs (insert/remove/contains; view is a finite Set) hold for std's BTreeSet")
    rep.assume("key_obeys_cmp_spec::<[I; 3]>() / <[I; 4]>(): Ord on arrays of the index type is a lawful total order (true for u16/u32/usize)")
    rep.assume("R0 stand-ins: trait TermIndex/GraphNameIndex with the contract of DESIGN 4.1 (get_index = lookup in an injective ghost map, ensure_index = lookup-or-extend, Err => map unchanged, reserved index never issued); trait Term reduced to its identity key()")
    rep.assume("the real SimpleTermIndex meets that contract: checked only by the bounded Kani unit U-INDEX")
    failed_all = []
    lost = []
    for name, builder in (("store_graph", store.build_graph), ("store_dataset", store.build_dataset),
                          ("iter_graph", iters.build_graph), ("iter_dataset", iters.build_dataset)):
        try:
            info = builder(core.REPO)
            res = verus.run_verus(ID, name, info["text"])
        except (LostAnchor, RewriteRefused, Undecided) as e:
            # the unit cannot be generated / type-checked any more (function rewritten): undecided, unless the
            # native enumerator exhibits a failing history on the real stores (decided below)
            lost.append((name, str(e)[:500]))
            continue
        rep.cuts.update(info["cuts"])
        for k, v in info["rewrites"].items():
            rep.rewrites[k] = rep.rewrites.get(k, 0) + v
        failed = verus.record(rep, res, info["expect_functions"], "verus:%s::" % name, "")
        failed_all += [(name, f, res) for f in failed]
    rep.functions += [
        "GenericFastGraph::{insert,remove} (inmem/src/graph.rs)", "GenericLightGraph::{insert,remove} (inmem/src/graph.rs)",
        "GenericFastDataset::{insert,remove} (inmem/src/dataset.rs)", "GenericLightDataset::{insert,remove} (inmem/src/dataset.rs)",
        "GraphNameIndex::get_graph_name_index / get_graph_name default bodies (inmem/src/index.rs)",
        "SpoMatchingIterator::next, BcMatchingIterator::next, TermData::{new,uninit,update} (inmem/src/graph/_iter.rs)",
        "GspoMatchingIterator::next, BcdMatchingIterator::next, CdMatchingIterator::next, GraphNameData::{new,uninit,update} (inmem/src/dataset/_iter.rs)",
    ]
    rep.assume("R0 stand-ins of U-ITER: BT<'a,TI> for the GAT BorrowTerm<'a>; BTreeSet Iter/Range abstracted as the ghost sequence still to be yielded (next() pops its head); TermMatcher/GraphNameMatcher::matches decide ghost predicates; Term::eq / graph_name_eq decide identity (C02); == on the index type is structural")
    # vacuity canary: a contract demanding the wrong flag must be refuted
    if not any(n == "store_graph" for n, _ in lost):
        info = store.build_graph(core.REPO)
        bad = info["text"].replace("r is Ok ==> r->Ok_0 == !old(self).view().contains((s.key(), p.key(), o.key())),",
                                   "r is Ok ==> r->Ok_0 == old(self).view().contains((s.key(), p.key(), o.key())),")
        cres = verus.run_verus(ID, "store_graph_canary", bad)
        ok = cres["funcs"].get("GenericFastGraph::insert") is False and cres["funcs"].get("GenericLightGraph::insert") is False
        rep.guard("canary: insert contract with the inverted flag must be refuted", ok, str({k: v for k, v in cres["funcs"].items() if "insert" in k}))
    if lost:
        rc, out, err, secs = native.run_replay(ID, "c01", [])
        if rc == 1:
            for name, why in lost:
                rep.obligation("verus:%s (unit)" % name, "verus/z3", False, detail="obligations cannot be generated: " + why)
                rep.violation("verus:%s (unit)" % name, "the obligations of unit %s, discharged on the unchanged tree, cannot be generated or checked any more (%s); failing history found on the real stores" % (name, why),
                              witness=out.strip().splitlines()[-1], replay_text="./check C01 --replay <this file>", confirmed=True)
        else:
            for name, why in lost:
                rep.undecided.append("unit %s: %s (and the enumerator found no failing history)" % (name, why.replace("\n", " | ")))
    if failed_all:
        rc, out, err, secs = native.run_replay(ID, "c01", [])
        witness, confirmed = None, False
        if rc == 1:
            witness, confirmed = out.strip().splitlines()[-1], True
        for name, f, res in failed_all:
            rep.violation("verus:%s::%s" % (name, f), verus.blocks_for(res, [f]), witness=witness,
                          replay_text="./check C01 --replay <this file>  # replay_src/c01: all histories of <=3 ops over 12 quads on the real stores",
                          confirmed=confirmed)
    # bounded stand-in for the query dispatch (outside Verus: Box<dyn Iterator>, closures, BTreeSet::range; CBMC needs
    # > 60 min for a 3-triple store): exhaustive native enumeration over a small domain, labelled as such
    native.bounded_stand_in(rep, ID, "c01", [], "c01_histories_and_shapes",
                            "every history of <= 3 insert/remove operations over 12 quads on the four default store types, after each operation all 16 (8) bound/unbound pattern shapes and 14 (8) queries with other matcher kinds (Not of one / several / an unknown constant, several constants, closures, TermKind, Option, graph-name Not / closure) against a set oracle; contains() for every quad of the universe and the term enumerations (subjects ... literals, graph_names; as sets) after every step; remove_matching / retain_matching (11 matcher combinations) and insert_all / remove_all of streams with duplicates from every initial content of <= 3 quads on Fast/Light datasets, HashSet<Spog> and BTreeSet<Spog>, contents and counts against the oracle; index-full scenario on the four 16-bit stores (a new term is refused and leaves nothing behind; triples over known terms are still inserted / re-inserted / removed with the right flags)",
                            "histories <= 3 ops, 12 quads, constants from the operation's quad", "triples_matching / quads_matching dispatch of GenericFast/LightGraph/Dataset (inmem/src/graph.rs, dataset.rs), SimpleTermIndex (inmem/src/index.rs), the matcher implementations they consult (api/src/term/matcher/*.rs: constant(), matches())",
                            "./check C01 --replay <this file>")
    # the same enumeration compiled WITHOUT debug assertions (as in a release build): code placed inside a
    # debug_assert! disappears there
    native.bounded_stand_in(rep, ID, "c01", [], "c01_histories_and_shapes_without_debug_assertions",
                            "the same enumeration, the crates compiled with debug assertions off (release semantics of debug_assert!)",
                            "histories <= 3 ops, 12 quads, constants from the operation's quad; debug-assertions = false", "the same functions, in the configuration where debug_assert! arguments are not evaluated",
                            "./check C01 --replay <this file>   # CARGO_PROFILE_DEV_DEBUG_ASSERTIONS=false", env={"CARGO_PROFILE_DEV_DEBUG_ASSERTIONS": "false"})
    rep.not_covered += [
        "the dispatch in triples_matching / quads_matching (which index and range is scanned, constant() hints, the closure-based filter/map arms): not under contract (only the five matching iterators' next() are); covered by the bounded native stand-in only",
        "bulk default methods insert_all/remove_all/remove_matching/retain_matching: covered by the bounded native stand-in only (stream part: C15)",
        "HashSet/BTreeSet/Vec foreign impls (std containers trusted)",
    ]
    rep.notes.append("Verus: the five matching iterators return exactly the first remaining tuple accepted by all matchers, consuming the rejected ones")
    rep.notes.append("Verus: 8 store mutators proved against a term-level set view for every index type")


def replay(path):
    rec = json.load(open(path))
    rc, out, err, secs = native.run_replay(ID, "c01", [])
    print(out.strip()[-2000:])
    print("replay of %s: %s" % (rec["obligation"], "VIOLATION REPRODUCED" if rc == 1 else "no failing input in the enumerated domain"))
    return 1 if rc == 1 else 0
