"""C06 Canonicalisation equals W3C RDFC-1.0 -- kernels only.

Proved (Verus, unbounded): Heap's-algorithm kernel `permutations` / `for_each_permutation_of` terminates, hands
only permutations of the input to the callback, leaves a permutation behind.
Everything else of RDFC-1.0 (hash-n-degree-quads, relabel_with steps 3-5) is NOT covered.
"""
import json
from engine import core, verus, native, overlay, kani_unit
from engine.kani_unit import H
from units import perm

LEVEL = "proof"
ID = "C06"

# completeness of the enumeration: concrete distinct inputs, every loop bound a constant => complete for that n.
# n = 6 is DEFAULT_PERMUTATION_LIMIT (longer lists are rejected before the call).
KANI = [
    H("c06_permutations_complete_n4", "for 4 distinct elements the callback sees exactly 4! pairwise distinct permutations", complete=True, timeout=900),
    H("c06_permutations_complete_n5", "for 5 distinct elements: exactly 5! pairwise distinct permutations", complete=True, timeout=1500),
    H("c06_permutations_error_stops", "the first Err of the callback is returned at once, no further call (n = 4, every failing position)", complete=True, timeout=900),
    H("c06_permutations_complete_n6", "for 6 distinct elements (the default permutation limit): exactly 6! pairwise distinct permutations", complete=True, tiers=("thorough",), timeout=10800),  # measured: 6656 s
]


def run(rep):
    try:
        info = perm.build(core.REPO)
    except Exception as e:  # LostAnchor / RewriteRefused
        rep.undecided.append("U-PERM cannot be generated: " + str(e)[:400])
        info = {"cuts": {}, "assumptions": [], "text": None, "expect_functions": []}
    rep.cuts.update(info["cuts"])
    for a in info["assumptions"]:
        rep.assume(a)
    rep.assume("vstd multiset / seq library lemmas (group_to_multiset_ensures)")
    rep.functions += ["sophia_c14n::_permutations::for_each_permutation_of", "sophia_c14n::_permutations::permutations (c14n/src/_permutations.rs), extracted verbatim"]
    res, failed = None, []
    try:
        if info["text"] is None:
            raise core.Undecided("unit not generated")
        res = verus.run_verus(ID, "perm", info["text"])
        failed = verus.record(rep, res, info["expect_functions"], "verus:perm::", "")
        can = perm.build(core.REPO, canary="swap_spec_wrong")
        cres = verus.run_verus(ID, "perm_canary", can["text"])
        rep.guard("canary: with a swap that overwrites instead of exchanging, `permutations` must be refuted",
                  cres["funcs"].get("permutations") is False, str(cres["funcs"]))
    except core.Undecided as e:
        # the kernel's proof cannot be checked any more: undecided, unless the Kani harnesses or the native stand-in
        # below fail on the real code (a violation takes precedence in the verdict)
        rep.undecided.append("U-PERM: " + str(e)[:400].replace("\n", " | "))
    with overlay.Scratch(ID) as sc:
        sc.append("c14n/src/_permutations.rs", open(core.VERIF + "/contracts/perm/kani_perm.rs").read())
        kfailed = kani_unit.run_harnesses(rep, sc, "sophia_c14n", KANI, jobs=4, need_stubs=False)
    if kfailed:
        rc, out, err, secs = native.run_replay(ID, "c06", [])
        witness, confirmed = (out.strip().splitlines()[-1], True) if rc == 1 else (None, False)
        for h, r in kfailed:
            rep.violation("kani:sophia_c14n::" + h.name, kani_unit.describe_failure(r), witness=witness,
                          replay_text="./check C06 --replay <this file>", confirmed=confirmed)
    if failed:
        rc, out, err, secs = native.run_replay(ID, "c06", [])
        witness, confirmed = (out.strip().splitlines()[-1], True) if rc == 1 else (None, False)
        for f in failed:
            rep.violation("verus:perm::" + f, verus.blocks_for(res, [f]), witness=witness,
                          replay_text="./check C06 --replay <this file>  # replay_src/c06: canonicalises small symmetric datasets under all relabelings with the real crate",
                          confirmed=confirmed)
    # bounded native stand-in for the composition of the algorithm (HashMap/BTreeMap of Rc<str>, SHA-2, String
    # formatting: outside both verifiers): byte-for-byte comparison with an independent transcription of RDFC-1.0
    deep = rep.tier == "thorough"
    native.bounded_stand_in(rep, ID, "c06", ["rdfc"] + (["deep"] if deep else []), "c06_rdfc10_reference",
                            "normalize_with / relabel_with (SHA-256 and SHA-384, default limits) against an independent transcription of RDFC-1.0 (replay_src/c06/src/oracle.rs): canonical N-Quads equal byte for byte, identifier map is a bijection onto c14n0..c14n(n-1) and yields the document, no failure unless a limit is really exceeded; cycles / stars with 20 combinations of non-default depth factor and permutation limit: an error exactly when the limit is exceeded, the RDFC-1.0 document otherwise",
                            ("about 470 000" if deep else "69 106") + " comparisons: every dataset of <= 3 quads over a 120-quad universe with 3 blank nodes, blank graph names, 2 predicates (quick: 3-quad datasets over one predicate only), plus cycles / cliques / stars / chains / two components of 2..5 blank nodes, plain, over two named graphs, with blank graph names, with one distinguished edge; 2..4 pairs / paths / rings of nodes from several groups with equal first-degree hashes; 10 datasets whose literals, language tags, IRIs hold control characters (C0, DEL, C1), quotes, backslashes and non-ASCII text, compared line by line with the canonical N-Quads escaping of RDFC-1.0 section 5 written independently in the oracle; cycles of 11-13 nodes and two identical lists of 6 / 12 cells (more than 10 temporary identifiers); hubs of 2..6 leaves distinguishable two steps away; two hubs of 6 leaves (the default permutation limit) under " + ("all 720" if deep else "103") + " assignments of the distinguishing literals x 3 label schemes",
                            "relabel_with steps 2-6, hash_first_degree_quads, hash_related_bnode, hash_n_degree_quads, BnodeIssuer, normalize_with sorting and the canonical N-Quads writer (escape-free terms) (c14n/src/rdfc10.rs, _cnq.rs, hash.rs)",
                            "./check C06 --replay <this file>   # replay_src/c06 rdfc")
    rep.not_covered += [
        "completeness (n! distinct arrangements) beyond n = 5 in the quick tier / n = 6 in the thorough tier; user-raised permutation limits",
        "steps 3-5 of the canonicalization algorithm, Hash N-Degree Quads, issuer: not under contract (bounded native stand-in only); canonical N-Quads escaping of literals; datasets beyond the enumerated shapes; limits beyond the 20 enumerated combinations",
    ]
    rep.notes.append("proved: the permutation kernel; the composition of RDFC-1.0 is compared with an independent transcription on a bounded domain (native stand-in, not a proof)")


def replay(path):
    rec = json.load(open(path))
    rc, out, err, secs = native.run_replay(ID, "c06", ["rdfc"] if "rdfc" in (rec.get("replay") or "") else [])
    print(out.strip()[-2000:])
    print("replay of %s: %s" % (rec["obligation"], "VIOLATION REPRODUCED" if rc == 1 else "no failing input in the enumerated domain"))
    return 1 if rc == 1 else 0
