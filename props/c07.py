"""C07 Isomorphism test: no false negatives, no blindness to ground differences.

Kernel contract (Kani, real sophia_isomorphism, add-only overlay in isomorphism/src/iso_term.rs):
  IsoTerm(a) == IsoTerm(b)  <=>  a and b are the same term once every blank node, at any nesting depth,
  is replaced by one fixed node; Ord is a consistent total order (Equal <=> ==, antisymmetric).
Bounded: one-byte payloads over {a, b}, nesting depth <= 1.  The colour-refinement part of the algorithm
(make_map / hash_quad_with over HashMap + SipHash) is not under contract; the replay enumerator exercises it
natively only when an obligation fails.
"""
import json
from engine import core, overlay, native, kani_unit
from engine.kani_unit import H
from contracts import common

LEVEL = "model_checking"
ID = "C07"

HARNESSES = [
    H("c07_isoterm_atoms", "atoms of every kind: IsoTerm eq <=> (both blank) or Term::eq; Ord: Equal <=> eq, antisymmetric, partial_cmp == Some(cmp)",
      bound="payload 1 byte over {a,b}; all 4 atom kinds", timeout=900),
    H("c07_isoterm_quoted_subject", "quoted triples differing (or not) in the subject only: eq <=> blank-insensitive eq of that component; Ord consistent", bound="nesting depth 1; one symbolic pair of atoms", timeout=900),
    H("c07_isoterm_quoted_predicate", "same for the predicate position (generalized RDF allows a blank node there)", bound="nesting depth 1; one symbolic pair of atoms", timeout=900),
    H("c07_isoterm_quoted_object", "same for the object position", bound="nesting depth 1; one symbolic pair of atoms", timeout=900),
    H("c07_isoterm_quoted", "quoted triples with subject AND object symbolic: eq <=> component-wise blank-insensitive eq; a quoted triple never equals an atom; Ord consistent",
      bound="nesting depth 1; subject/object symbolic atoms, predicate fixed", tiers=("thorough",), timeout=2400),
]


def run(rep):
    rep.assume(common.ASSUMPTION)
    rep.assume("harness term type K (atoms with 1-byte payload / quoted triple of atoms) stands for every Term implementation: IsoTerm only uses the Term accessors")
    rep.functions += ["<IsoTerm<T> as PartialEq/PartialOrd/Ord>, iso_cmp (isomorphism/src/iso_term.rs)"]
    with overlay.Scratch(ID) as s:
        common.apply_common(s)
        s.append("isomorphism/src/iso_term.rs", common.expand(open(core.VERIF + "/contracts/iso/kani_iso.rs").read(), "iso"))
        failed = kani_unit.run_harnesses(rep, s, "sophia_isomorphism", HARNESSES, jobs=4)
    # bounded stand-in for the part no contract reaches (colour refinement over HashMap + SipHash): the real
    # isomorphic_datasets on an exhaustive small domain
    native.bounded_stand_in(rep, ID, "c07", [], "c07_enumerator",
                            "every dataset of <= 2 quads over 6 subjects x 8 objects (IRIs, 2 blank nodes, literal, 3 quoted-triple shapes incl. a blank predicate) x 3 graph names: 3 label bijections x 2 statement orders must be isomorphic in both argument orders; a changed ground IRI, a dropped quad, merged co-occurring blank nodes must not; 10 kinds of ground difference (nesting shape of two-level quoted triples, language tag, datatype, lexical form, term kind, literal inside a quoted triple, graph name) as subject / object, in ground and non-ground statements, alone and beside a blank-node statement, graphs and datasets; blank nodes nested two and three levels deep in quoted triples (renamed, swapped, merged); list-like containers holding a statement twice: all arrangements of {A, A, B} and renamed copies are isomorphic",
                            "<= 2 quads + 10 structural pairs x 8 placements", "isomorphic_graphs, isomorphic_datasets, IsoTerm / iso_cmp on nested terms, make_b2q_map, make_map, make_equivalence_classes, hash_quad_with (isomorphism/src/dataset.rs, hash.rs)",
                            "./check C07 --replay <this file>")
    if failed:
        rc, out, err, secs = native.run_replay(ID, "c07", [])
        witness, confirmed = (out.strip().splitlines()[-1], True) if rc == 1 else (None, False)
        for h, r in failed:
            rep.violation("kani:sophia_isomorphism::" + h.name, kani_unit.describe_failure(r), witness=witness,
                          replay_text="./check C07 --replay <this file>   # replay_src/c07: datasets of <= 2 quads, all renamings, on the real isomorphic_datasets",
                          confirmed=confirmed)
    rep.not_covered += ["colour refinement (make_b2q_map, make_map, hash_quad_with, equivalence classes): HashMap/SipHash out of CBMC's reach",
                        "end-to-end isomorphic_datasets / isomorphic_graphs (only run natively by the replay enumerator)",
                        "nesting depth > 1, payloads longer than one byte"]
    rep.notes.append("nothing here is proved for all inputs: bounded Kani harnesses on the comparison kernel only")


def replay(path):
    rec = json.load(open(path))
    rc, out, err, secs = native.run_replay(ID, "c07", [])
    print(out.strip()[-1500:])
    print("replay of %s: %s" % (rec["obligation"], "VIOLATION REPRODUCED" if rc == 1 else "no failing input in the enumerated domain"))
    return 1 if rc == 1 else 0
