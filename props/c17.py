"""C17 Relativising an IRI against a base is the inverse of resolving.

Proved (Verus, unbounded, for every base / IRI / candidate): Relativizer::relativize returns Some(r) only if r is a
valid IRI reference and BaseIri::resolve(base, r) gave back exactly the IRI -- the postcondition holds whatever
the prefix-based heuristic `candidate` computes (it is an arbitrary function in the proof), because the real
function ends with a resolve-and-compare guard.  `resolve` itself is a trusted callee contract (oxiri, RFC 3986).
Not covered: the parent-step bound, and 'an IRI differing from the base only in query/fragment is always
relativised' (completeness of `candidate`): str-heavy code outside Verus, and CBMC does not finish on it.
"""
import json
from engine import core, verus, native
from engine.rsx import LostAnchor
from units import relativize

LEVEL = "proof"
ID = "C17"


def _fallback(rep, why):
    """The obligation discharged on the unchanged tree cannot be generated / checked any more (guard gone, function
    rewritten beyond the stand-ins).  That alone is 'undecided'; it becomes a VIOLATION only if the small-domain
    enumerator exhibits a failing (base, IRI) on the real code."""
    rc, out, err, secs = native.run_replay(ID, "c17", ["first"])
    if rc == 1:
        rep.obligation("verus:relativize::Relativizer::relativize", "verus/z3", False, detail="obligation cannot be generated/checked: %s" % why)
        rep.violation("verus:relativize::Relativizer::relativize",
                      "the proof obligation of the unchanged tree cannot be generated or checked any more (%s); failing input found on the real code" % why,
                      witness=out.strip().splitlines()[0], replay_text="./check C17 --replay <this file>", confirmed=True)
        return True
    return False


def run(rep):
    try:
        info = relativize.build(core.REPO)
        res = verus.run_verus(ID, "relativize", info["text"])
    except (LostAnchor, core.Undecided) as e:
        if _fallback(rep, str(e)[:400]):
            return
        raise
    rep.cuts.update(info["cuts"])
    rep.rewrites.update(info["rewrites"])
    for a in info["assumptions"]:
        rep.assume(a)
    rep.functions.append("sophia_iri::relativize::Relativizer::relativize (iri/src/relativize.rs), extracted together with the guard helper `checked` (when present); callees `candidate` and `protect` abstracted to arbitrary functions")
    failed = verus.record(rep, res, info["expect_functions"], "verus:relativize::", "")
    can = relativize.build(core.REPO, canary="no_guard")
    cres = verus.run_verus(ID, "relativize_canary", can["text"])
    rep.guard("canary: without the resolve-and-compare guard the postcondition must be refuted",
              (cres["funcs"].get("Relativizer::checked", cres["funcs"].get("Relativizer::relativize")) is False), str(cres["funcs"]))
    if failed:
        rc, out, err, secs = native.run_replay(ID, "c17", ["first"])
        witness, confirmed = (out.strip().splitlines()[0], True) if rc == 1 else (None, False)
        for f in failed:
            rep.violation("verus:relativize::" + f, verus.blocks_for(res, [f]), witness=witness,
                          replay_text="./check C17 --replay <this file>   # replay_src/c17: 193332 checks on the real sophia_iri",
                          confirmed=confirmed)
    # bounded stand-in for the clauses outside the Verus proof (str-heavy heuristic; CBMC does not finish on it)
    native.bounded_stand_in(rep, ID, "c17", ["first"], "c17_enumerator",
                            "193332 (base, IRI, parents) triples: bases from 2 prefixes x 11 tails, IRIs with tails of <= 4 characters over {a,b,/,.,:,?,#}, parents 0..2, plus a completeness family (36 bases incl. empty paths, no authority, non-ASCII, ':' in the last segment, '?' and '/' inside the query; 20 query/fragment suffixes): Some(r) => valid reference, resolve(base, r) == iri, '../' count <= parents; IRIs equal to the base up to query/fragment are relativised unless no reference of <= 5 characters resolves to them; no panic; an INDEPENDENT transcription of RFC 3986 5.2 agrees with the resolver on every returned reference and on all references of <= 4 characters (bases with an authority and no dot segment, references without scheme / authority: where the resolver in use follows the RFC to the letter)",
                            "tails <= 4 characters, 7-letter alphabet", "Relativizer::new, Relativizer::candidate, longest_common_prefix (iri/src/relativize.rs); BaseIri::resolve (oxiri)",
                            "./check C17 --replay <this file>")
    rep.not_covered += ["number of leading '../' <= parents (bounded native stand-in only)", "IRIs equal to the base up to query/fragment are always relativised (completeness of the heuristic)",
                        "Relativizer::new (offset computation)", "oxiri's resolve being RFC 3986 5.2 (trusted)"]
    rep.notes.append("the guard makes the soundness half of the property hold by construction; Verus proves that it does")


def replay(path):
    rec = json.load(open(path))
    rc, out, err, secs = native.run_replay(ID, "c17", ["first"])
    print(out.strip()[-1500:])
    print("replay of %s: %s" % (rec["obligation"], "VIOLATION REPRODUCED" if rc == 1 else "no failing input in the enumerated domain"))
    return 1 if rc == 1 else 0
