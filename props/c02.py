"""C02 Term equality, hashing and ordering are lawful and implementation-independent.

Kani on the real sophia_api (add-only overlay in api/src/term.rs), bounded to one-byte components over {a, b, B}:
  the default Term::eq / Term::cmp / Term::hash against the term's identity key (kind rank, strings, tag folded
  to lower case); LanguageTag Eq/Ord/Hash fold ASCII case consistently; NsTerm's hand-written eq agrees with
  equality of the whole IRI for every split point.
Not covered: quoted triples, the conversion paths (from_term, into_term...), sophia_term / rio / jsonld / sparql
term types (Arc/String interning: CBMC cost).
"""
import json
from engine import core, overlay, native, kani_unit, verus
from engine.core import Undecided
from engine.kani_unit import H
from engine.rsx import LostAnchor, RewriteRefused
from contracts import common
from units import termeq

LEVEL = "model_checking"
ID = "C02"

B1 = "atoms of every kind (IRI, blank, typed literal, language-tagged literal, variable); payload/tag 1 byte over {a, b, B}"
HARNESSES = [
    H("c02_term_eq_cmp_pair", "Term::eq(a,b) <=> key(a)==key(b); symmetric; cmp==Equal <=> eq; cmp antisymmetric; cmp == order on keys (blank < IRI < literal < variable)", bound=B1, timeout=900),
    H("c02_term_cmp_transitive", "Term::cmp transitive on triples of atoms (<= and Equal)", bound=B1, timeout=900),
    H("c02_nsterm_eq_override", "NsTerm::eq(prefix+suffix, iri) <=> whole IRIs equal, for every split point; never equal to a non-IRI", bound="3-byte IRIs over {a,b}, all 4 split points", timeout=900),
    H("c02_term_hash_pair", "equal terms feed identical byte sequences to any Hasher (recording hasher: length + two checksums of the bytes written)", bound=B1, timeout=900),
    H("c02_langtag_laws", "LanguageTag: == / Ord / Hash all compare ASCII-case-insensitively and agree with each other", bound="2 ASCII letters per tag, all letter values", timeout=1500, stubs=False),
]


def run_verus_part(rep):
    """Unbounded: the default Term::eq (and Triple::eq / eq_spo, through which it recurses into quoted triples) decides
    exactly teq, the equality the property states, for all terms of any nesting depth; teq is an equivalence."""
    try:
        info = termeq.build(core.REPO)
    except (LostAnchor, RewriteRefused) as e:
        rep.notes.append("U-TERMEQ not generated (%s): Term::eq is then covered by the bounded Kani harnesses only" % e)
        return []
    try:
        res = verus.run_verus(ID, "termeq", info["text"])
    except Undecided as e:
        rep.notes.append("U-TERMEQ could not be checked (%s): Term::eq is then covered by the bounded Kani harnesses and the native stand-in only" % str(e)[:300])
        return []
    rep.cuts.update(info["cuts"])
    rep.rewrites.update(info["rewrites"])
    for a in info["assumptions"]:
        rep.assume(a)
    rep.functions.append("Term::eq default body (api/src/term.rs), Triple::eq, Triple::eq_spo (api/src/triple.rs): extracted, bodies verbatim up to R0/R6/R8 (Verus, unbounded, any nesting depth)")
    failed = verus.record(rep, res, info["expect_functions"], "verus:termeq::", "")
    # vacuity canary: against a case-sensitive tag equality the same text must be refuted
    can = termeq.build(core.REPO, canary="case_sensitive_tags")
    cres = verus.run_verus(ID, "termeq_canary", can["text"])
    rep.guard("termeq canary (spec with case-sensitive tags) is refuted", cres["funcs"].get("term_eq") is False)
    return [(f, res) for f in failed]


def run(rep):
    vfailed = run_verus_part(rep)
    rep.assume(common.ASSUMPTION)
    rep.assume("harness term type K stands for every Term implementation that answers the accessors consistently; the default methods only use the accessors")
    rep.functions += ["Term::eq, Term::cmp, Term::hash default bodies (api/src/term.rs)", "LanguageTag PartialEq/Ord/Hash (api/src/term/language_tag.rs)", "NsTerm::eq (api/src/ns/_term.rs)"]
    with overlay.Scratch(ID) as s:
        common.apply_common(s)
        s.append("api/src/term.rs", common.expand(open(core.VERIF + "/contracts/term/kani_term.rs").read(), "api"))
        failed = kani_unit.run_harnesses(rep, s, "sophia_api", HARNESSES, jobs=5)
    if failed or vfailed:
        rc, out, err, secs = native.run_replay(ID, "c02", [])
        witness, confirmed = (out.strip().splitlines()[-1], True) if rc == 1 else (None, False)
        for f, res in vfailed:
            rep.violation("verus:termeq::" + f, verus.blocks_for(res, [f]), witness=witness,
                          replay_text="./check C02 --replay <this file>   # replay_src/c02: pairs/triples of SimpleTerm/NsTerm/native terms on the real crate", confirmed=confirmed)
        for h, r in failed:
            rep.violation("kani:sophia_api::" + h.name, kani_unit.describe_failure(r), witness=witness,
                          replay_text="./check C02 --replay <this file>   # replay_src/c02: pairs/triples of SimpleTerm/NsTerm/native terms on the real crate", confirmed=confirmed)
    # bounded native stand-in for what CBMC cannot execute (Arc/Rc/Box allocation graphs, String, std DefaultHasher):
    # the laws on a pool of real SimpleTerms incl. nested quoted triples, and every provided conversion / copy path
    native.bounded_stand_in(rep, ID, "c02", [], "c02_laws_and_conversions",
                            "eq / cmp / hash laws on all pairs and triples of a pool of 25 SimpleTerms (all kinds, tags in several cases and longer than 35 bytes, quoted triples nested twice incl. two with the same atom sequence but different bracketing; quoted triples ordered component-wise), NsTerm at every split point of 3 IRIs against every near miss of the IRI (one character removed or inserted, any substring doubled or removed); hashes taken with std's hasher and with a hasher that is sensitive to how the bytes are grouped into write calls; every provided conversion or copy (ArcTerm / RcTerm from_term, as_simple, borrow_term, into_term, from_term_ref, try_into_term, Arc / Rc stashes copy_term, triple() / to_triple() / atoms() of the copies, graph names) yields a term of the same kind, equal both ways, cmp Equal, same hash; the other Term implementations (sparql ResultTerm, CmpTerm, native i32 / isize / usize / f64 / bool / str values, IriRef / BnodeId / VarName / NsTerm, Rio's model terms wrapped as Trusted, the JSON-LD parser's terms under 3 rdfDirection settings) answer every accessor like the SimpleTerm they stand for and are equal / hashed / ordered alike",
                            "25 + 3 terms, 5230 cases", "FromTerm / Term::into_term / as_simple / from_term_ref for SimpleTerm, sophia_term::{ArcTerm, RcTerm, GenericLiteral} (term/src/_macro.rs, _generic.rs), ArcStrStash / RcStrStash::copy_term, graph_name_eq, sparql ResultTerm (sparql/src/term.rs), rio Trusted<..> (rio/src/model.rs), jsonld RdfTerm (jsonld/src/parser/adapter.rs), native values as terms (api/src/term/_native_literal.rs, _native_iri.rs)",
                            "./check C02 --replay <this file>   # replay_src/c02")
    rep.not_covered += ["quoted triples (nesting) for cmp / hash beyond the pool of the native stand-in (eq is proved for any nesting)", "term types of c14n (C14nTerm, private) and of the SPARQL stash beyond ResultTerm; every conversion path is in the bounded native stand-in only",
                        "strings longer than one byte, non-ASCII content"]
    rep.notes.append("Term::eq is proved (Verus) to be the stated equivalence for all terms; cmp, hash, LanguageTag and NsTerm are bounded Kani harnesses")


def replay(path):
    rec = json.load(open(path))
    rc, out, err, secs = native.run_replay(ID, "c02", [])
    print(out.strip()[-1500:])
    print("replay of %s: %s" % (rec["obligation"], "VIOLATION REPRODUCED" if rc == 1 else "no failing input in the enumerated domain"))
    return 1 if rc == 1 else 0
