"""C16 Stack use does not grow with the amount of data.

What a contract can state: the six anchored functions (five matching iterators' `next`, `quoted_string`) are
NOT self-recursive and their loops terminate with a measure on the remaining input.  Verus enforces "a recursive
exec function must carry a decreases clause"; the extracted functions carry none, so acceptance by Verus means
no recursion (call depth 1 per element regardless of the number of rows / escaped bytes); the loop `decreases` is
discharged by z3 as part of the functional proofs (units U-ITER, U-ESC).
Not covered: graph_rec (SPARQL), populate_list / mark_list_node (JSON-LD), the Turtle pretty printer, parsers.
"""
import json
import re
from engine import core, verus, native
from engine.core import Undecided
from engine.rsx import LostAnchor, RewriteRefused
from units import iters, esc, esc_bare

LEVEL = "proof"
ID = "C16"
REC = "recursive function must have a decreases clause"

SITES = [
    ("SpoMatchingIterator", "spo", "inmem/src/graph/_iter.rs"),
    ("BcMatchingIterator", "bc", "inmem/src/graph/_iter.rs"),
    ("GspoMatchingIterator", "gspo", "inmem/src/dataset/_iter.rs"),
    ("BcdMatchingIterator", "bcd", "inmem/src/dataset/_iter.rs"),
    ("CdMatchingIterator", "cd", "inmem/src/dataset/_iter.rs"),
]


def _bare_verdict(rep, name, text, fn_pat):
    """Run the contract-free extraction; return True if Verus reports the function as recursive."""
    rc, out, err, secs = core.sh("verus %s --triggers-mode silent" % _write(name, text), timeout=300)
    recursive = False
    for blk in re.split(r"\n(?=error)", "\n" + err):
        if REC in blk and re.search(fn_pat, blk):
            recursive = True
    return recursive, err


def _write(name, text):
    import os
    d = os.path.join(core.WORK, ID)
    os.makedirs(d, exist_ok=True)
    f = os.path.join(d, name + ".rs")
    open(f, "w").write(text)
    return f


def run(rep):
    rep.assume("Verus' termination rule: an exec function in a call-graph cycle must have a `decreases` clause (none is spliced on the anchored functions)")
    rep.assume("stand-ins of U-ITER / U-ESC (R0): callee contracts for BTreeSet iterators, TermIndex::get_term, matchers, io::Write")
    rep.assume("call depth is used as the proxy for stack use; frame sizes are not measured")
    # full proofs (also C01 / C03 obligations): they contain the loop-termination obligations
    full = {}
    for unit_name, builder in (("iter_graph", iters.build_graph), ("iter_dataset", iters.build_dataset)):
        try:
            info = builder(core.REPO)
            res = verus.run_verus(ID, unit_name, info["text"])
            rep.cuts.update(info["cuts"])
            for k, v in info["rewrites"].items():
                rep.rewrites[k] = rep.rewrites.get(k, 0) + v
            full[unit_name] = res
        except (LostAnchor, RewriteRefused, Undecided) as e:
            full[unit_name] = e
    try:
        einfo = esc.build(core.REPO)
        full["esc"] = verus.run_verus(ID, "esc", einfo["text"])
        rep.cuts.update(einfo["cuts"])
    except (LostAnchor, RewriteRefused, Undecided) as e:
        full["esc"] = e

    def site(name, unit, fn_key, bare_builder, fn_pat, replay_arg, where):
        obl = "verus:norec::%s" % name
        rep.functions.append("%s (%s)" % (fn_key, where))
        res = full[unit]
        if not isinstance(res, Exception) and res["funcs"].get(fn_key) is True:
            rep.obligation(obl, "verus/z3", True, seconds=res["ftimes"].get(fn_key, 0.0),
                           detail="verified without a decreases clause on the function; loop decreases on the remaining input discharged")
            rep.solver_s += res["ftimes"].get(fn_key, 0.0)
            if res["cmd"] not in rep.checker_cmds:
                rep.checker_cmds.append(res["cmd"])
            return
        # proof not available: decide the recursion obligation alone on the contract-free extraction
        try:
            info = bare_builder()
        except (LostAnchor, RewriteRefused) as e:
            rep.undecided.append("%s: extraction failed: %s" % (name, e))
            return
        recursive, err = _bare_verdict(rep, "bare_" + name, info["text"], fn_pat)
        if recursive:
            rep.obligation(obl, "verus (termination rule)", False, detail="self-recursive")
            rc, out, e2, secs = native.run_replay(ID, "c16", [replay_arg])
            confirmed = rc not in (0,) and "overflowed its stack" in (e2 + out)
            rep.violation(obl, "Verus: %s\n%s" % (REC, err[-1500:]),
                          witness="%s with 200000 rejected rows / escaped bytes on a 2 MiB stack (dev build)" % replay_arg,
                          replay_text="./check C16 --replay <this file>   # replay_src/c16 %s 200000" % replay_arg, confirmed=confirmed)
        else:
            why = res if isinstance(res, Exception) else "function %s did not verify: %s" % (fn_key, "\n".join(res["error_blocks"])[-600:])
            rep.undecided.append("%s: proof unavailable (%s) and the contract-free extraction is not recursive" % (name, str(why).replace("\n", " | ")[:700]))

    for name, arg, where in SITES:
        unit = "iter_graph" if "graph" in where else "iter_dataset"
        site(name, unit, name + "::next", lambda n=name: iters.build_bare(core.REPO, n), r"fn next\(", arg, where)
    site("quoted_string", "esc", "quoted_string", lambda: esc_bare.build_bare(core.REPO), r"fn quoted_string", "esc", "turtle/src/serializer/nt.rs")
    for u in full.values():
        if not isinstance(u, Exception):
            rep.backends.add("verus %s / z3" % u["version"])
    # vacuity guard: the recursion rule really fires on a recursive variant of quoted_string
    bad = esc_bare.build_bare(core.REPO)["text"]
    bad = bad.replace("txt = &txt[cut + 1..];", "return quoted_string(w, &txt[cut + 1..]);")
    recursive, _ = _bare_verdict(rep, "canary_rec", bad, r"fn quoted_string")
    rep.guard("canary: a tail-recursive variant of quoted_string must be rejected by the termination rule", recursive)
    run_depth_stand_ins(rep)
    rep.not_covered += ["parsers (dependencies)", "frame sizes; recursion whose frames are so small that N items fit in 2 MiB",
                        "collections and many subjects / graphs through the Turtle / TriG pretty printer in the quick tier (quadratic in dev builds: thorough tier only, N = 3000); the quick tier has the object-list site only"]
    rep.notes.append("six recursion sites under obligation (Verus); the sites neither verifier reaches are bounded native stand-ins: N items on a 2 MiB stack")


# (site, N, tiers, functions it stands in for)
DEPTH_SITES = [
    ("filter", 200000, ("quick", "thorough"), "FilterSource / FilterTripleSource / FilterQuadSource :: try_for_some_item (api/src/source/filter.rs), Source::for_each_item, collect_triples, insert_all"),
    ("filter_map", 200000, ("quick", "thorough"), "FilterMapSource::try_for_some_item, FilterMapSourceIterator::next (api/src/source/filter_map.rs)"),
    ("map", 200000, ("quick", "thorough"), "MapSource::try_for_some_item, MapSourceIterator::next (api/src/source/map.rs)"),
    ("sparql-graphs", 100000, ("quick", "thorough"), "ExecState::graph / graph_rec (sparql/src/exec.rs): GRAPH ?g over N named graphs"),
    ("sparql-bgp", 100000, ("quick", "thorough"), "Bgp evaluation (sparql/src/bgp.rs, exec.rs): N solutions, N/2 rows rejected by the second pattern, N rows rejected by a FILTER"),
    ("sparql-union", 100000, ("quick", "thorough"), "DISTINCT, ORDER BY, OFFSET/LIMIT, UNION, ASK over N solutions (sparql/src/exec.rs)"),
    ("jsonld-list", 100000, ("quick", "thorough"), "Engine::mark_list_node, populate_list (jsonld/src/serializer/engine.rs): one rdf:List of N items"),
    ("jsonld-many", 100000, ("quick", "thorough"), "JSON-LD serializer engine over N flat quads in N/10 named graphs"),
    ("turtle-objects", 100000, ("quick", "thorough"), "Prettifier::write_objects / write_properties (turtle/src/serializer/_pretty.rs): ONE subject with N rdf:type objects and N objects of another predicate"),
    ("turtle-list", 3000, ("thorough",), "Turtle pretty printer (turtle/src/serializer/_pretty.rs): one collection of N items"),
    ("turtle-many", 3000, ("thorough",), "Turtle / TriG pretty printer: N flat statements, N subjects, N/10 named graphs"),
]


def run_depth_stand_ins(rep):
    """Bounded native stand-ins for the recursion sites neither verifier reaches (closures over GATs, HashMap-based
    engines, boxed iterator chains): the real code processes N flat items on a 2 MiB stack in a dev build; a stack
    overflow kills the process.  One process per site."""
    from concurrent.futures import ThreadPoolExecutor
    sites = [s for s in DEPTH_SITES if rep.tier in s[2]]
    try:
        binp, dst = native.build_bin(ID, "c16b")
    except Undecided as e:
        rep.undecided.append("c16 depth stand-ins: %s" % e)
        return

    def one(s):
        return s, core.sh([binp, s[0], str(s[1])], timeout=1500)
    with ThreadPoolExecutor(max_workers=5) as ex:
        results = list(ex.map(one, sites))
    import shutil
    shutil.rmtree(dst, ignore_errors=True)
    for (name, n, _, fns), (rc, out, err, secs) in results:
        obl = "native:c16_depth_" + name.replace("-", "_")
        overflow = rc in (-6, -11, 134, 139) or "overflowed its stack" in err
        if rc == 0 or overflow:
            rep.obligation(obl, "native run on a 2 MiB stack (rustc dev build, real crates)", rc == 0, seconds=secs,
                           detail="%s items, flat data | functions: %s | %s" % (n, fns, out.strip()[-120:]), complete=False,
                           bound="N = %d items on a 2 MiB stack, dev profile" % n)
            rep.functions.append(fns + " [bounded native stand-in]")
            if overflow:
                rep.violation(obl, "stack overflow\n" + (err + out)[-800:], witness="%s with %d items on a 2 MiB stack (dev build)" % (name, n),
                              replay_text="./check C16 --replay <this file>   # replay_src/c16b %s %d" % (name, n), confirmed=True)
        else:
            rep.undecided.append("%s: stand-in did not run (rc=%s): %s" % (obl, rc, (err or out)[-300:].replace("\n", " | ")))


def replay(path):
    rec = json.load(open(path))
    m2 = re.search(r"replay_src/c16b ([\w-]+) (\d+)", rec.get("replay") or "")
    if m2:
        rc, out, err, secs = native.run_replay(ID, "c16b", [m2.group(1), m2.group(2)])
        print((out + err).strip()[-600:])
        print("replay of %s: %s" % (rec["obligation"], "VIOLATION REPRODUCED (stack overflow)" if rc != 0 else "completed without overflow"))
        return 1 if rc != 0 else 0
    m = re.search(r"replay_src/c16 (\w+)", rec.get("replay") or "")
    arg = m.group(1) if m else "spo"
    rc, out, err, secs = native.run_replay(ID, "c16", [arg])
    print((out + err).strip()[-600:])
    bad = rc != 0
    print("replay of %s: %s" % (rec["obligation"], "VIOLATION REPRODUCED (stack overflow)" if bad else "completed without overflow"))
    return 1 if bad else 0
