"""C19 The local resource loader never reads outside its configured directories.

The classical contract move: std::fs::read is given a PRECONDITION confined(path, root) (the path starts with the
configured directory and walking its segments never climbs above it); a Kani stub of std::fs::read asserts it.
The obligation is that LocalLoader::get establishes it at the call site.
Bounded (representatives): CBMC does not finish on symbolic suffixes (std::path component parsing; measured
50 min for 3 symbolic bytes), so the obligation is checked for concrete IRIs covering each escape class:
plain, leading '/', '..', inner '../..', './' and empty segments, fragment, IRI outside the namespace,
percent-encoded dots and slashes, the namespace itself.
"""
import json
from engine import core, overlay, native, kani_unit
from engine.kani_unit import H
from contracts import common

LEVEL = "model_checking"
ID = "C19"

REPS = [("c19_rep_plain", "x:/a/b"), ("c19_rep_leading_slash", "x://etc/p"), ("c19_rep_dotdot", "x:/../p"),
        ("c19_rep_inner_dotdot", "x:/a/../../p"), ("c19_rep_dot_and_empty", "x:/./a//b"), ("c19_rep_fragment", "x:/a#../../p"),
        ("c19_rep_outside_namespace", "y:/a"), ("c19_rep_curdir_then_parent", "x:/./../p"), ("c19_rep_curdir_empty_parent", "x:/.//../p"),
        ("c19_rep_balanced_then_parent", "x:/a/./../../p"),
        ("c19_rep_namespace_itself", "x:/"), ("c19_rep_only_dot", "x:/./"), ("c19_rep_namespace_fragment", "x:/#f"),
        ("c19_rep_pct_dotdot", "x:/%2e%2e/p"), ("c19_rep_pct_mixed_dotdot", "x:/.%2E/p"), ("c19_rep_pct_slash", "x:/..%2fp")]
# IRIs that must still be SERVED (std::fs::read reached, cover required) vs IRIs that may be refused before any read
MUST_REACH = {"c19_rep_plain", "c19_rep_dot_and_empty", "c19_rep_fragment"}
HARNESSES = [H(n, "LocalLoader::get(%s) with namespace x:/ -> /r: every path handed to std::fs::read satisfies confined(path, /r)%s" % (iri, " and the read IS attempted" if n in MUST_REACH else ""),
               bound="concrete IRI %s" % iri, timeout=600, covers_optional=(n not in MUST_REACH)) for n, iri in REPS]


def run(rep):
    rep.assume(common.ASSUMPTION)
    rep.assume("std::fs::read replaced by a stub that asserts the precondition and returns PermissionDenied (so the extension-retry recursion after NotFound is not explored; it only appends .ttl/.nt/... to the last segment)")
    rep.assume("LocalLoader constructed directly (LocalLoader::check calls is_dir(), a file-system call outside Kani)")
    rep.functions += ["<LocalLoader as Loader>::get (resource/src/loader/_local.rs); std::fs::read under an assumed contract with precondition confined(path, root)"]
    with overlay.Scratch(ID) as s:
        common.apply_common(s)
        s.append("resource/src/loader/_local.rs", common.expand(open(core.VERIF + "/contracts/loader/kani_local.rs").read(), "resource"))
        failed = kani_unit.run_harnesses(rep, s, "sophia_resource", HARNESSES, jobs=7)
    if failed:
        rc, out, err, secs = native.run_replay(ID, "c19", [])
        witness, confirmed = (out.strip().splitlines()[-1], True) if rc == 1 else (None, False)
        for h, r in failed:
            rep.violation("kani:sophia_resource::" + h.name, kani_unit.describe_failure(r), witness=witness,
                          replay_text="./check C19 --replay <this file>   # replay_src/c19: real directory tree with a sentinel file outside the root", confirmed=confirmed)
    # bounded native stand-in on a real directory tree (std::fs / std::path are what CBMC cannot execute: is_file(),
    # metadata, with_extension make it time out): files named after the directory beside it, sibling directories
    # sharing its prefix, a sentinel one level up
    native.bounded_stand_in(rep, ID, "c19", [], "c19_real_directory_tree",
                            "LocalLoader::get on a real temporary tree never returns the content of a file outside the mapped directory (sentinel content in <tmp>/secret.ttl, <tmp>/root.{ttl,nt,...}, <tmp>/root-private/, <tmp>/rootsub/) and still serves a file inside it; a directory configured relatively is refused or keeps designating the same directory after the working directory changed",
                            "43 IRIs (+9 with a relatively configured directory and a changed working directory): dot segments, absolute remainders, percent-encoded dots / slashes, fragments, the namespace itself, nested namespaces",
                            "<LocalLoader as Loader>::get incl. the extension-guessing retry, LocalLoader::new / check (resource/src/loader/_local.rs) against the real file system",
                            "./check C19 --replay <this file>   # replay_src/c19")
    rep.not_covered += ["symbolic suffixes (CBMC does not finish on std::path parsing)", "nested / overlapping namespace configurations and the extension retry after NotFound beyond the IRIs of the native stand-in", "Resource::get_neighbour (calls the same loader)", "symbolic links, Windows prefixes"]
    rep.notes.append("bounded: representative IRIs only")


def replay(path):
    rec = json.load(open(path))
    rc, out, err, secs = native.run_replay(ID, "c19", [])
    print(out.strip()[-1500:])
    print("replay of %s: %s" % (rec["obligation"], "VIOLATION REPRODUCED" if rc == 1 else "no failing input in the enumerated domain"))
    return 1 if rc == 1 else 0
