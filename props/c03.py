"""C03 N-Triples / N-Quads serialisation round trip.

Proved (Verus, unbounded): quoted_string writes exactly esc(lexical form); unesc . esc = id;
esc's image is inside the STRING_LITERAL_QUOTE body language and contains no raw LF/CR;
esc is a concatenation homomorphism that is the identity on non-special bytes (UTF-8 preserved).
Bounded (Kani): write_term framing.
"""
import json
import os
import re
from engine import core, verus, native, rsx, overlay, kani_unit
from engine.core import Undecided
from engine.kani_unit import H
from engine.rsx import LostAnchor, RewriteRefused
from contracts import common
from units import esc as unit
from units import ntterm

LEVEL = "proof"
ID = "C03"


def strip_spec_for_guard(info):
    """The rewritten function as plain Rust (no spec text): used by the R1 equivalence guard."""
    cut = info["plain_fn"]
    fn, _ = rsx.rewrite_enumerate(cut)
    fn, _ = rsx.replace_code(fn, r"\(w: &mut W, mut txt: &\[u8\]\) -> io::Result<\(\)> \{",
                             "(w: &mut W, txt_in: &[u8]) -> io::Result<()> {\n    let mut txt = txt_in;", expect=1)
    return fn.replace("pub(crate) fn", "pub fn")


KANI = [
    H("c03_quoted_string_len3", "quoted_string writes exactly esc(txt) for every byte string of length <= 3 (real function, called by name)", bound="len <= 3, all byte values", timeout=1500),
    H("c03_quoted_string_len4", "same, length <= 4", bound="len <= 4, all byte values", tiers=("thorough",), timeout=3000),
    H("c03_write_term_iri", "write_term(IRI c) == '<' c '>'", bound="1 ASCII byte", timeout=900),
    H("c03_write_term_blank", "write_term(blank c) == '_:' c", bound="1 ASCII byte", timeout=900),
    H("c03_write_term_var", "write_term(variable c) == '?' c", bound="1 ASCII byte", timeout=900),
    H("c03_write_term_lit_plain", "xsd:string literal: '\"' esc(lex) '\"' and no datatype suffix", bound="concrete literal \"x\"", timeout=900),
    H("c03_write_term_lit_datatype", "other datatype: '\"' esc(lex) '\"^^<' dt '>'", bound="concrete literal \"x\"^^<d>", timeout=900),
    H("c03_write_term_lit_lang", "language-tagged literal: '\"' esc(lex) '\"@' tag", bound="lexical form 1 ASCII byte (all values), tag 2 ASCII bytes", tiers=("thorough",), timeout=1800),
]


def run_kani_part(rep):
    rep.assume(common.ASSUMPTION)
    rep.functions.append("sophia_turtle::serializer::nt::{write_term, quoted_string} on the real crate (Kani, bounded)")
    with overlay.Scratch(ID) as s:
        common.apply_common(s)
        s.append("turtle/src/serializer/nt.rs", common.expand(open(core.VERIF + "/contracts/esc/kani_nt.rs").read(), "turtle"))
        s.append("turtle/src/serializer/nq.rs", open(core.VERIF + "/contracts/esc/kani_nq_accessor.rs").read())
        # the quoted_string harnesses need no stubs (no term code); only check the stub lines on write_term ones
        return kani_unit.run_harnesses(rep, s, "sophia_turtle", KANI, jobs=8, need_stubs=False)


def run(rep):
    kfailed = run_kani_part(rep)
    try:
        run_verus_part(rep)
    except (LostAnchor, RewriteRefused, Undecided) as e:
        # the unbounded proof cannot be generated / checked any more (function rewritten, construct outside Verus'
        # subset): undecided, unless the bounded harnesses or the native stand-in on the real code fail, in which case
        # their failure is the reported violation (a violation takes precedence over 'undecided' in the verdict)
        rep.notes.append("Verus unit not available (%s); verdict comes from the bounded Kani harnesses and the native stand-in" % str(e)[:300])
        if not kfailed:
            rep.undecided.append("Verus unit not available: " + str(e)[:400].replace("\n", " | "))
    # bounded stand-in for the statement level (NqSerializer / NtSerializer + sophia's own N-Quads / N-Triples
    # parsers): CBMC needs > 25 min for a single concrete quad through serialize_quads
    try:
        _extra = {"src/rewritten.rs": strip_spec_for_guard(unit.build(core.REPO))}
    except Exception:
        _extra = {"src/rewritten.rs": "pub fn quoted_string<W: io::Write>(_w: &mut W, _t: &[u8]) -> io::Result<()> { Ok(()) }\n"}
    rc, out, err, secs = native.run_replay(ID, "c03", ["stmts"], extra_files=_extra)
    if rc in (0, 1):
        rep.obligation("native:c03_statements", "native exhaustive enumeration (rustc, real crates)", rc == 0, seconds=secs,
                       detail="1710 quads: 6 subjects x 57 objects x 5 graph names (every literal shape incl. datatypes resembling xsd:string, tags, surrounding white space, quoted triples, blank node labels over the PN_CHARS repertoire, IRIs with dot / empty segments, percent-escapes, upper case, every C0 control / DEL / NEL / LS / BOM / non-character in literals); whole datasets of 0 / 1 / 80 / 100 / 150 / 400 / 1000 statements through one serializer call (stringifier and io::Write) x 3 graph names through NqSerializer/NtSerializer and sophia_turtle's parsers: one statement per line, parse(serialize(q)) == q | functions: serialize_quads, serialize_triples, write_triple, write_term with long IRIs",
                       complete=False, bound="1710 single-statement datasets + 7 larger ones (up to 1000 statements, > 100 KiB)")
        if rc == 1:
            rep.violation("native:c03_statements", "bounded stand-in failed\n" + out[-1500:], witness=out.strip().splitlines()[0],
                          replay_text="./check C03 --replay <this file>", confirmed=True)
    else:
        rep.undecided.append("c03_statements enumerator did not run: " + (err or out)[-300:].replace("\n", " | "))
    if kfailed:
        info = None
        try:
            info = unit.build(core.REPO)
            extra = {"src/rewritten.rs": strip_spec_for_guard(info)}
        except Exception:
            extra = {"src/rewritten.rs": "pub fn quoted_string<W: io::Write>(_w: &mut W, _t: &[u8]) -> io::Result<()> { Ok(()) }\n"}
        rc, out, err, secs = native.run_replay(ID, "c03", ["enum", str(rep.seed)], extra_files=extra)
        witness, confirmed = (out.strip().splitlines()[-1], True) if rc == 1 else (None, False)
        for h, r in kfailed:
            rep.violation("kani:sophia_turtle::" + h.name, kani_unit.describe_failure(r), witness=witness,
                          replay_text="./check C03 --replay <this file>", confirmed=confirmed)


def run_verus_part(rep):
    info = unit.build(core.REPO)
    rep.cuts.update(info["cuts"])
    rep.rewrites.update(info["rewrites"])
    rep.functions.append("sophia_turtle::serializer::nt::quoted_string (turtle/src/serializer/nt.rs), extracted, body verbatim up to R1/R3/R4")
    for a in info["assumptions"]:
        rep.assume(a)
    rep.assume("std::io::Write::write_all: on Ok the writer's ghost view grows by exactly buf (external_trait_specification ExWrite); on Err nothing is claimed")
    rep.assume("std::io::Error is an opaque external type")
    rep.assume("Rio's N-Triples/N-Quads parser implements the W3C grammar's STRING_LITERAL_QUOTE (unesc); not run by the deciding step")
    rep.assume("slice length < usize::MAX (requires of quoted_string; true for every Rust slice: len <= isize::MAX)")
    # write_term / write_triple together with quoted_string (so that the call is checked against the verified
    # contract); if their splice is lost, quoted_string alone is still proved and the term level is left to the
    # bounded harnesses / stand-ins below
    tinfo = None
    try:
        tinfo = ntterm.build(core.REPO)
        res = verus.run_verus(ID, "ntterm", tinfo["text"])
        expect = info["expect_functions"] + ["write_term", "write_triple", "write_triple_arr"]
        rep.cuts.update(tinfo["cuts"])
        rep.rewrites.update(tinfo["rewrites"])
        for a in tinfo["assumptions"]:
            rep.assume(a)
        rep.functions.append("sophia_turtle::serializer::nt::{write_term, write_triple} (turtle/src/serializer/nt.rs), extracted, bodies verbatim up to R0 (stand-in Term/Triple traits, `xsd::string != dt`) and R6 (specialised copy for the recursive call)")
        if tinfo.get("statements"):
            rep.functions.append("the per-statement closure bodies of NtSerializer::serialize_triples (nt.rs) and NqSerializer::serialize_quads (nq.rs), lifted verbatim into functions (R7)")
        else:
            rep.not_covered.append("statement closures of serialize_triples / serialize_quads (anchors lost: %s)" % tinfo.get("statements_lost"))
        tcan = ntterm.build(core.REPO, canary="always_suffix")
        tcres = verus.run_verus(ID, "ntterm_canary", tcan["text"])
        rep.guard("canary: a term grammar that always writes the datatype suffix must be refuted on write_term",
                  tcres["funcs"].get("write_term") is False, "write_term success=%s" % tcres["funcs"].get("write_term"))
    except (LostAnchor, RewriteRefused, Undecided) as e:
        rep.notes.append("U-NTTERM not available (%s): write_term/write_triple left to the bounded checks" % str(e)[:200])
        rep.not_covered.append("write_term / write_triple unbounded proof (splice lost on this tree: %s)" % str(e)[:200])
        res = verus.run_verus(ID, "esc", info["text"])
        expect = info["expect_functions"]
    import os
    n_l1 = rsx.check_literal_axioms((tinfo or info).get("l1_sources", []), os.path.join(core.WORK, ID))
    rep.guard("L1 byte-literal axioms cross-checked by rustc (%d literals)" % n_l1, n_l1 > 0)
    failed = verus.record(rep, res, expect, "verus:nt::", "turtle/src/serializer/nt.rs")
    # vacuity guard 3: the canary spec (esc that forgets CR) must FAIL on quoted_string
    can = unit.build(core.REPO, canary="spec_wrong_cr")
    cres = verus.run_verus(ID, "esc_canary", can["text"])
    rep.guard("canary: spec without the CR escape must be refuted on quoted_string",
              cres["funcs"].get("quoted_string") is False, "quoted_string success=%s" % cres["funcs"].get("quoted_string"))
    # R1 equivalence guard + (on failure) enumerator on the real code
    seed = str(rep.seed)
    rc, out, err, secs = native.run_replay(ID, "c03", ["guard", seed], extra_files={"src/rewritten.rs": strip_spec_for_guard(info)})
    if rc == 3:
        raise Undecided("R1/R4 equivalence guard: rewritten text differs from the real function: " + out[-300:])
    if rc != 0:
        raise Undecided("R1 guard program failed to run: " + (err or out)[-600:].replace("\n", " | "))
    rep.guard("R1/R4 rewrite equivalence (rewritten text vs real function, all strings len<=4 over 9 symbols + 2000 seeded random)", True, out.strip()[-200:])
    if failed:
        rc, out, err, secs = native.run_replay(ID, "c03", ["enum", seed], extra_files={"src/rewritten.rs": strip_spec_for_guard(info)})
        witness, confirmed = None, False
        if rc == 1:
            witness, confirmed = out.strip().splitlines()[-1], True
        for f in failed:
            rep.violation("verus:nt::" + f, verus.blocks_for(res, [f]), witness=witness,
                          replay_text="cd /verif && ./check C03 --replay <this file>   # runs replay_src/c03 `enum` on the real sophia_turtle",
                          confirmed=confirmed)
    rep.not_covered += [
        "NqSerializer::serialize_quads / NtSerializer::serialize_triples statement framing (a Kani harness exists in the overlay, c03_nq_statement_line, but CBMC needs > 25 min for one concrete quad; not run)",
        "injectivity of whole-term framing needs the validators' character classes (regexes; assumed)",
        "Rio parser conformance (assumed)",
    ]
    rep.notes.append("Verus proves write_term(t) writes exactly fmt_term(t) for every term value at every nesting depth (datatype suffix iff the datatype is not xsd:string, tag, quoted triples), through stand-in accessor contracts")
    rep.notes.append("Verus proves quoted_string == esc for all byte strings; lemmas give unesc(esc(s)) == s, line discipline and UTF-8 preservation")


def replay(path):
    rec = json.load(open(path))
    info = unit.build(core.REPO)
    rc, out, err, secs = native.run_replay(ID, "c03", ["enum", "0"], extra_files={"src/rewritten.rs": strip_spec_for_guard(info)})
    print(out.strip())
    print("replay of %s: %s" % (rec["obligation"], "VIOLATION REPRODUCED" if rc == 1 else "no failing input in the enumerated domain"))
    return 1 if rc == 1 else 0
