"""C14 ORDER BY sorts by a consistent order that respects SPARQL's '<'.

Kernel under contract: `impl PartialOrd for &SparqlNumber` (sparql/src/value/_number.rs), the comparison that
sparql_cmp / sparql_order_by use for every pair of numeric values.  Contract from the property: on non-NaN values
it is a total preorder (always Some, antisymmetric, transitive for <= and for Equal).
 complete (loop-free, full machine domain of the operands, one harness per kind triple over
 {NativeInt(isize), Float(f32), Double(f64)}):
   * c14_num_*   : full domain.  KNOWN FINDING: fails for the kind triples that mix NativeInt with Float/Double,
                   because SPARQL's own operator promotes integers to float/double lossily (2^24+1, 2^53+1);
   * c14_exact_* : same obligations with integers restricted to |i| <= 2^24, where every promotion is exact: must
                   hold, so that any OTHER defect of the comparison is still reported.
Not covered: NaN, BigInt/BigDecimal operands, strings/booleans/dateTime, the fallback to Term::cmp for
non-comparable pairs (float formatting is out of CBMC's reach), cmp_bindings_with's None handling.
"""
import json
import re
from engine import core, overlay, native, kani_unit
from engine.kani_unit import H
from contracts import common
from contracts.order import gen

LEVEL = "proof"
ID = "C14"

# kind triples whose harness needs BigInt symbolic execution (two NativeInt operands reach `or_else(|| fbig(..))`):
# 15-40 min each; thorough tier only
SLOW = lambda t: sum(1 for k in t if k == "NativeInt") >= 2


def run(rep):
    full, exact, text = gen.generate()
    hs = []
    for t in gen.triples():
        if SLOW(t):
            # measured: > 40 min each (symbolic BigInt construction behind `or_else`); not run in either tier
            continue
        tiers = ("quick", "thorough")
        tmo = 900
        hs.append(H(gen.name("c14_num", t), "total preorder on %s x %s x %s (full domain, non-NaN)" % t, complete=True, tiers=tiers, timeout=tmo))
        if "NativeInt" in t:
            hs.append(H(gen.name("c14_exact", t), "total preorder on %s x %s x %s with |int| <= 2^24 (all promotions exact)" % t, complete=True, tiers=tiers, timeout=tmo))
    rep.assume(common.ASSUMPTION)
    rep.assume("CBMC's bit-precise IEEE-754 semantics for f32/f64 comparison and int->float conversion (round-to-nearest-even)")
    rep.functions += ["<&SparqlNumber as PartialOrd>::partial_cmp, SparqlNumber::coercing_operator / coerce_to_float / coerce_to_double (sparql/src/value/_number.rs)"]
    with overlay.Scratch(ID) as s:
        common.apply_common(s)
        s.append("sparql/src/value/_number.rs", text)
        failed = kani_unit.run_harnesses(rep, s, "sophia_sparql", hs, jobs=12, need_stubs=False)
    for h, r in failed:
        m = re.match(r"c14_(num|exact)_(\w+)", h.name)
        kinds = m.group(2)
        rc, out, err, secs = native.run_replay(ID, "c14", [kinds])
        witness, confirmed = None, False
        if rc == 1:
            try:
                j = json.loads(out.strip().splitlines()[-1])
                witness = "%s: %s ; %s ; %s" % (j["kinds"], j["a"], j["b"], j["c"])
                confirmed = True
            except Exception:
                witness = out.strip()[-300:]
        if h.name.startswith("c14_exact"):
            # the exact fragment must hold: never matched against known findings
            rep.violation("kani:sophia_sparql::" + h.name, kani_unit.describe_failure(r), witness=None if not confirmed else "EXACT-FRAGMENT " + witness,
                          replay_text="./check C14 --replay <this file>   # replay_src/c14 %s (ASK/FILTER through SparqlWrapper)" % kinds, confirmed=confirmed)
        else:
            rep.violation("kani:sophia_sparql::" + h.name, kani_unit.describe_failure(r), witness=witness,
                          replay_text="./check C14 --replay <this file>   # replay_src/c14 %s (ASK/FILTER through SparqlWrapper)" % kinds, confirmed=confirmed)
    rep.not_covered += ["kind triples with two or more NativeInt operands (7 of 27): CBMC does not finish (> 40 min each)", "NaN operands, BigInt / BigDecimal operands", "strings, booleans, dateTimes, ill-typed literals and the Term::cmp fallback",
                        "cmp_bindings_with (None < Some, DESC, later keys) and sort_unstable_by in exec.rs"]


def replay(path):
    rec = json.load(open(path))
    m = re.search(r"replay_src/c14 (\w+)", rec.get("replay") or "")
    rc, out, err, secs = native.run_replay(ID, "c14", [m.group(1)] if m else [])
    print(out.strip()[-1500:])
    print("replay of %s: %s" % (rec["obligation"], "VIOLATION REPRODUCED" if rc == 1 else "no failing input in the enumerated domain"))
    return 1 if rc == 1 else 0
