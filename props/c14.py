"""C14 ORDER BY sorts by a consistent order that respects SPARQL's '<'.

Kernel under contract: `impl PartialOrd for &SparqlNumber` (sparql/src/value/_number.rs), the comparison that
sparql_cmp / sparql_order_by use for every pair of numeric values.  Contract from the property: on non-NaN values
it is a total preorder (always Some, antisymmetric, transitive for <= and for Equal).
 complete (loop-free, full machine domain of the operands, one harness per kind triple over
 {NativeInt(isize), Float(f32), Double(f64)}):
   * c14_num_*   : full domain.  KNOWN FINDING: fails for the kind triples that mix NativeInt with Float/Double,
                   because SPARQL's own operator promotes integers to float/double lossily (2^24+1, 2^53+1);
   * c14_exact_* : same obligations with integers restricted to |i| <= 2^24, where every promotion is exact: must
                   hold, so that any OTHER defect of the comparison is still reported.
Not covered: NaN, BigInt/BigDecimal operands, strings/booleans/dateTime, the fallback to Term::cmp for
non-comparable pairs (float formatting is out of CBMC's reach), cmp_bindings_with's None handling.
"""
import json
import re
from engine import core, overlay, native, kani_unit
from engine.kani_unit import H
from contracts import common
from contracts.order import gen

LEVEL = "proof"
ID = "C14"

# kind triples whose harness needs BigInt symbolic execution (two NativeInt operands reach `or_else(|| fbig(..))`):
# 15-40 min each; thorough tier only
SLOW = lambda t: sum(1 for k in t if k == "NativeInt") >= 2


def run(rep):
    full, exact, text = gen.generate()
    hs = []
    for t in gen.triples():
        if SLOW(t):
            # measured: > 40 min each (symbolic BigInt construction behind `or_else`); not run in either tier
            continue
        tiers = ("quick", "thorough")
        tmo = 900
        hs.append(H(gen.name("c14_num", t), "total preorder on %s x %s x %s (full domain, non-NaN)" % t, complete=True, tiers=tiers, timeout=tmo))
        if "NativeInt" in t:
            hs.append(H(gen.name("c14_exact", t), "total preorder on %s x %s x %s with |int| <= 2^24 (all promotions exact)" % t, complete=True, tiers=tiers, timeout=tmo))
    hs.append(H("c14_rep_bigint_vs_native", "integers beyond 64 bits (-10^23, 10^23) against EVERY native integer: ordered by sign and magnitude, both operand orders", complete=False, bound="two concrete big integers x all isize values", timeout=1500))
    hs.append(H("c14_rep_small_bigint_vs_native", "small integers carried as big integers (5, -3: results of big-integer arithmetic) against EVERY native integer: ordered by value, both operand orders", complete=False, bound="two concrete small big integers x all isize values", timeout=1500))
    rep.assume(common.ASSUMPTION)
    rep.assume("CBMC's bit-precise IEEE-754 semantics for f32/f64 comparison and int->float conversion (round-to-nearest-even)")
    rep.functions += ["<&SparqlNumber as PartialOrd>::partial_cmp, SparqlNumber::coercing_operator / coerce_to_float / coerce_to_double (sparql/src/value/_number.rs)"]
    with overlay.Scratch(ID) as s:
        common.apply_common(s)
        s.append("sparql/src/value/_number.rs", text)
        failed = kani_unit.run_harnesses(rep, s, "sophia_sparql", hs, jobs=12, need_stubs=False)
    for h, r in failed:
        m = re.match(r"c14_(num|exact)_(\w+)", h.name)
        if not m:
            rc, out, err, secs = native.run_replay(ID, "c14", ["orderby"])
            rep.violation("kani:sophia_sparql::" + h.name, kani_unit.describe_failure(r), witness=out.strip().splitlines()[-1][:400] if rc == 1 else None,
                          replay_text="./check C14 --replay <this file>   # replay_src/c14 orderby", confirmed=(rc == 1))
            continue
        kinds = m.group(2)
        rc, out, err, secs = native.run_replay(ID, "c14", [kinds])
        witness, confirmed = None, False
        if rc == 1:
            try:
                j = json.loads(out.strip().splitlines()[-1])
                witness = "%s: %s ; %s ; %s" % (j["kinds"], j["a"], j["b"], j["c"])
                confirmed = True
            except Exception:
                witness = out.strip()[-300:]
        if h.name.startswith("c14_exact"):
            # the exact fragment must hold: never matched against known findings
            rep.violation("kani:sophia_sparql::" + h.name, kani_unit.describe_failure(r), witness=None if not confirmed else "EXACT-FRAGMENT " + witness,
                          replay_text="./check C14 --replay <this file>   # replay_src/c14 %s (ASK/FILTER through SparqlWrapper)" % kinds, confirmed=confirmed)
        else:
            rep.violation("kani:sophia_sparql::" + h.name, kani_unit.describe_failure(r), witness=witness,
                          replay_text="./check C14 --replay <this file>   # replay_src/c14 %s (ASK/FILTER through SparqlWrapper)" % kinds, confirmed=confirmed)
    run_order_by_stand_in(rep)
    rep.not_covered += ["kind triples with two or more NativeInt operands (7 of 27): CBMC does not finish (> 40 min each)", "symbolic BigInt / BigDecimal operands (representatives only)",
                        "NaN, ill-typed literals and timezone-less dateTimes beyond the three recorded witnesses (the ORDER BY pool excludes them)",
                        "ORDER BY on values outside the 40-value pool of the bounded native stand-in"]


FINDING_WHAT = {
    "nan": "ORDER BY's order is cyclic through NaN: comparable pairs use the numeric order, NaN falls back to Term::cmp (datatype, then lexical form)",
    "ill_typed": "ORDER BY's order is cyclic through an ill-typed numeric literal: it is compared lexically with well-typed numbers that compare by value among themselves",
    "datetime_no_timezone": "ORDER BY's order is cyclic through a dateTime without timezone: incomparable within 14 h of a zoned dateTime, it falls back to the lexical order",
}


def run_order_by_stand_in(rep):
    """Bounded native stand-in for EvalResult::sparql_order_by / sparql_cmp (expression.rs), SparqlValue::partial_cmp
    (value.rs), XsdDateTime (value/_xsd_date_time.rs), BigInt/BigDecimal comparisons (_number.rs) and
    cmp_bindings_with + sort_unstable_by (exec.rs): Arc<str>, BigInt, chrono-like parsing, boxed iterators and the
    spargebra parser are outside both verifiers."""
    try:
        binp, dst = native.build_bin(ID, "c14")
    except core.Undecided as e:
        rep.undecided.append("c14 ORDER BY stand-in: %s" % e)
        return
    import shutil
    rc, out, err, secs = core.sh([binp, "orderby"], timeout=900)
    rc2, out2, err2, secs2 = core.sh([binp, "findings"], timeout=300)
    shutil.rmtree(dst, ignore_errors=True)
    fns = "EvalResult::sparql_order_by / sparql_cmp (sparql/src/expression.rs), SparqlValue::partial_cmp (value.rs), XsdDateTime ordering, BigInt / BigDecimal comparisons (_number.rs), cmp_bindings_with + sort (exec.rs)"
    if rc in (0, 1):
        rep.obligation("native:c14_order_by", "native exhaustive enumeration (rustc, real crates)", rc == 0, seconds=secs,
                       detail="pool of 40 values (unbound, blank nodes, IRIs, integers incl. beyond 64 bits, decimals, floats, doubles, derived integer types, strings, booleans, zoned dateTimes, language strings, unknown datatype): pairwise order read off two-row ORDER BY queries is a total preorder, puts unbound < blank < IRI < literal, agrees with an independent statement of '<' (and so does FILTER), whole-pool ASC/DESC sorts are sorted permutations, second key breaks ties (4 ASC/DESC combinations), a first key without value (never bound / erroring expression) leaves the decision to the later keys (5 key lists), expression keys mixing computed values and raw terms (COALESCE(?x - ?d, ?x), 17 rows incl. small results of big-integer arithmetic) keep a total preorder that agrees with the numeric values | functions: " + fns + " | " + out.strip()[-150:],
                       complete=False, bound="40 values, 1600 pairs, 64000 triples, 78 two-key rows")
        rep.functions.append(fns + " [bounded native stand-in]")
        if rc == 1:
            rep.violation("native:c14_order_by", "bounded stand-in failed\n" + out[-1500:], witness=out.strip().splitlines()[-1][:400],
                          replay_text="./check C14 --replay <this file>   # replay_src/c14 orderby", confirmed=True)
    else:
        rep.undecided.append("c14 ORDER BY stand-in did not run (rc=%s): %s" % (rc, (err or out)[-300:].replace("\n", " | ")))
    if rc2 == 0:
        for line in out2.strip().splitlines():
            try:
                j = json.loads(line)
            except Exception:
                continue
            obl = "native:c14_order_by_cycle_" + j["class"]
            rep.obligation(obl, "native run (rustc, real crates)", not j["cyclic"], seconds=secs2 / 3.0,
                           detail="the recorded witness triple of this class: " + j["witness"], complete=False, bound="one triple of values")
            if j["cyclic"]:
                rep.violation(obl, FINDING_WHAT.get(j["class"], j["class"]) + "\n" + line, witness=j["witness"],
                              replay_text="./check C14 --replay <this file>   # replay_src/c14 findings", confirmed=True)
    else:
        rep.undecided.append("c14 findings mode did not run (rc=%s): %s" % (rc2, (err2 or out2)[-300:].replace("\n", " | ")))


def replay(path):
    rec = json.load(open(path))
    m = re.search(r"replay_src/c14 (\w+)", rec.get("replay") or "")
    rc, out, err, secs = native.run_replay(ID, "c14", [m.group(1)] if m else [])
    print(out.strip()[-1500:])
    bad = rc == 1 or (m and m.group(1) == "findings" and '"cyclic":true' in out)
    print("replay of %s: %s" % (rec["obligation"], "VIOLATION REPRODUCED" if bad else "no failing input in the enumerated domain"))
    return 1 if bad else 0
