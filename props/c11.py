"""C11 Graph/dataset views stay coherent with the underlying store.

Forwarding contracts (Kani, real sophia_api adapters, add-only overlay in api/src/lib.rs) against a RECORDING
store: UnionGraph / PartialUnionGraph / DatasetGraph hand the s/p/o matchers to the store in the right positions,
put Any / the selector / exactly [graph name] in the graph position, and drop the graph name of what comes back;
DatasetGraph's insert/remove carry the view's graph name and return the store's flag; GraphAsDataset answers only
for selectors that include the default graph.  Pattern queries through a view then equal filtering the store BY the
store's own quads_matching contract (C01).
"""
import json
from engine import core, overlay, native, kani_unit
from engine.kani_unit import H
from contracts import common

LEVEL = "model_checking"
ID = "C11"

B = "probe matchers: s/p/o singletons {1},{2},{3}; graph selectors probed on default, graph 7, graph 8"
HARNESSES = [
    H("c11_union_graph_forwards", "UnionGraph::triples_matching / triples forward (s,p,o,Any) and drop the graph name", bound=B, timeout=900),
    H("c11_partial_union_graph_forwards", "PartialUnionGraph forwards (s,p,o,selector)", bound=B, timeout=900),
    H("c11_dataset_graph_forwards", "DatasetGraph forwards (s,p,o,[g]) for a default and a named graph", bound=B, timeout=900),
    H("c11_dataset_graph_mutations", "MutableGraph for DatasetGraph: insert/remove reach the store once, with the view's graph name, flag returned unchanged", bound="symbolic flag, default/named graph, insert/remove", timeout=900),
    H("c11_graph_as_dataset_mutations", "MutableDataset for GraphAsDataset: insert/remove in the default graph reach the graph as the same operation with the same terms and flag; a named graph is refused (insert) / empty (remove)", bound="symbolic flag, default/named graph, insert/remove", timeout=900),
    H("c11_union_graph_projections", "UnionGraph's term enumerations are those of its triples: a term occurring only as a graph name is not enumerated; subjects/predicates/objects are the triple's", bound="one quad (1,2,3) in graph 7", timeout=900),
    H("c11_graph_as_dataset_projections", "GraphAsDataset answers each term enumeration (subjects ... literals, variables) with the wrapped graph's enumeration of the same name; graph_names() is empty", bound="recording graph with one sentinel per enumeration", timeout=900),
    H("c11_graph_as_dataset_any_matcher", "GraphAsDataset::quads_matching with ANY graph-name matcher (only matches() known, symbolic answers): the graph's triples are shown, in the default graph, iff the matcher accepts the default graph", bound="one recorded triple; the matcher's two answers symbolic", timeout=900),
    H("c11_graph_as_dataset_queries", "GraphAsDataset::quads_matching forwards iff the selector accepts the default graph; quads come back in the default graph; contains() only there", bound=B, timeout=900),
]


def run(rep):
    rep.assume(common.ASSUMPTION)
    rep.assume("the recording store stands for every Dataset/Graph implementation: the adapters are generic and only call the trait methods")
    rep.assume("what a store returns for quads_matching(s,p,o,g) is its own contract (C01); the view adds nothing but the forwarding checked here")
    rep.functions += ["UnionGraph / PartialUnionGraph / DatasetGraph :: {triples, triples_matching, insert, remove} (api/src/graph/adapter.rs)",
                      "GraphAsDataset :: {quads_matching, contains, insert, remove} (api/src/dataset/adapter.rs)"]
    with overlay.Scratch(ID) as s:
        common.apply_common(s)
        s.append("api/src/lib.rs", common.expand(open(core.VERIF + "/contracts/views/kani_views.rs").read(), "api"))
        failed = kani_unit.run_harnesses(rep, s, "sophia_api", HARNESSES, jobs=5)
    if failed:
        rc, out, err, secs = native.run_replay(ID, "c11", [])
        witness, confirmed = (out.strip().splitlines()[-1], True) if rc == 1 else (None, False)
        for h, r in failed:
            rep.violation("kani:sophia_api::" + h.name, kani_unit.describe_failure(r), witness=witness,
                          replay_text="./check C11 --replay <this file>   # replay_src/c11: views over Vec / FastDataset vs filtering the store", confirmed=confirmed)
    # bounded native stand-in: the views over the REAL stores (FastDataset, Vec<Spog>, FastGraph, Vec<[T;3]>), incl. the
    # default bulk methods inherited by the views (remove_matching / retain_matching are generic over matchers and
    # stream through closures: outside Verus; the recording-store harnesses above have no state to retain from)
    native.bounded_stand_in(rep, ID, "c11", [], "c11_views_over_real_stores",
                            "union / partial-union / single-graph views vs filtering the store (triples, triples_matching with constant / several-constant / closure / negated / Any matchers in each position, contains with 3 kinds of selectors), term enumerations of the union graph and of graph-as-dataset, read paths of graph-as-dataset over FastGraph and Vec (quads, quads_matching with 10 kinds of graph-name matchers, contains, graph_names: every triple is a quad of the default graph and of no other), insert / remove / remove_matching / retain_matching through a mutable single-graph view change that graph only (flag / count as the direct operation), mutations through graph-as-dataset",
                            "660 datasets: every set of <= 3 quads over 2 subjects x 2 objects x 3 graph names, on FastDataset and Vec<Spog>; 4 graph shapes incl. quoted triples and generalized RDF for the enumerations",
                            "DatasetGraph / UnionGraph / PartialUnionGraph / GraphAsDataset incl. the MutableGraph / MutableDataset default methods they inherit (api/src/graph/adapter.rs, api/src/dataset/adapter.rs, api/src/graph.rs)",
                            "./check C11 --replay <this file>   # replay_src/c11")
    rep.not_covered += ["quoted_triples() of the views; projections of PartialUnionGraph / DatasetGraph (inherited defaults computed from triples())", 
                        "longer alternating histories through store and view"]
    rep.notes.append("bounded: probe-based forwarding contracts; nothing proved for all matchers")


def replay(path):
    rec = json.load(open(path))
    rc, out, err, secs = native.run_replay(ID, "c11", [])
    print(out.strip()[-1500:])
    print("replay of %s: %s" % (rec["obligation"], "VIOLATION REPRODUCED" if rc == 1 else "no failing input in the enumerated domain"))
    return 1 if rc == 1 else 0
