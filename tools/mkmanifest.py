#!/usr/bin/env python3
"""Regenerate MANIFEST.json from the table below (keeps it schema-valid)."""
import json, os, sys
V = os.path.dirname(os.path.dirname(os.path.abspath(__file__)))
sys.path.insert(0, V)
from tools.manifest_table import CHECKS, NOT_APPLICABLE, ENGINES, NOTES, SOURCE_COMMITS

props = [json.loads(l)["id"] for l in open(os.path.join(V, "properties.jsonl"))]
checks = []
for pid in props:
    if pid in CHECKS:
        c = CHECKS[pid]
        checks.append({
            "property_id": pid,
            "quick_cmd": "./check %s --tier quick" % pid,
            "thorough_cmd": "./check %s --tier thorough" % pid,
            "evidence_file": "/verif/evidence/%s.json" % pid,
            "replay_cmd_template": "./check %s --replay {path}" % pid,
            "engine": c["engine"],
            "level_claimed": {"category": c["category"], "text": c["text"], "design_ref": c["design_ref"]},
            "level_note": c["note"],
            "technique": c["technique"],
        })
na = [{"property_id": p, "reason": NOT_APPLICABLE[p]} for p in props if p not in CHECKS]
assert all(p in NOT_APPLICABLE for p in props if p not in CHECKS), "every unclaimed property needs a reason"
m = {
    "version": 1,
    "setup_cmd": "./setup.sh",
    "hooks": {
        "guard": "kani (cfg set only by cargo-kani); harnesses/contracts are a run-time add-only overlay on a scratch copy of /repo's working tree; no hook commit exists in /repo",
        "enable": "engine/overlay.py: rsync /repo -> $VERIF_SCRATCH/<id>/repo, append #[cfg(kani)] modules / insert #[cfg(kani)] lines, then cargo kani there; Verus units are re-extracted from /repo on every run (engine/rsx.py)",
        "baseline_off_cmd": "cd /repo && cargo test --workspace --no-fail-fast --offline",
        "source_commits": SOURCE_COMMITS,
        "add_only": True,
    },
    "engines": ENGINES,
    "checks": checks,
    "not_applicable": na,
    "notes": NOTES,
}
json.dump(m, open(os.path.join(V, "MANIFEST.json"), "w"), indent=1)
print("MANIFEST.json: %d checks, %d not_applicable" % (len(checks), len(na)))
