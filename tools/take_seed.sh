#!/bin/bash
# usage: tools/take_seed.sh <name> <ID> "<-p crates>"  : copy a sub-agent's deliverables to seeded/<name>, confirm them, run the check on a scratch copy
set -u
n=$1; P=$2; C=$3
mkdir -p /verif/seeded/$n
cp /tmp/seed/$n/_out/patch.diff /verif/seeded/$n/
rm -rf /verif/seeded/$n/demo; cp -r /tmp/seed/$n/_out/demo /verif/seeded/$n/; rm -rf /verif/seeded/$n/demo/target
cp /tmp/seed/$n/_out/meta.json /verif/seeded/$n/agent_meta.json
/verif/tools/confirm_seed.sh $n "$C" > /var/tmp/vp/confirm_$n.out 2>&1
tail -8 /var/tmp/vp/confirm_$n.out
/verif/tools/try_seed.sh $n $P > /var/tmp/vp/seed_$n.out 2>&1
tail -4 /var/tmp/vp/seed_$n.out
