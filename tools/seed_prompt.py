#!/usr/bin/env python3
"""usage: tools/seed_prompt.py <ID> <name> "<steer>" "<test crates>"  -> prompt text for an independent seeding sub-agent
(the agent gets the property text and its own scratch worktree /tmp/seed/<name>, nothing from /verif)."""
import json, sys
pid, name, steer, crates = sys.argv[1:5]
p = [json.loads(l) for l in open('/verif/properties.jsonl') if json.loads(l)['id'] == pid][0]
print(f"""You are helping test a verification setup for the Rust RDF toolkit sophia_rs (pchampin/sophia_rs). You have your own scratch git worktree of the repository at /tmp/seed/{name} (work ONLY there; never touch /repo or /verif, and do not read anything under /verif). The sandbox is offline: always pass --offline to cargo, and run `source /w/out/rust_env.sh` first. Use `export CARGO_TARGET_DIR=/tmp/seed/{name}/target`. Keep CPU use modest (other jobs are running): use `-j 4`.

Property under test (read it carefully):

---
{pid}: {p['title']}

{p['statement']}

Quantified over: {p['quantifier']['text']}
---

Files the property is anchored in: {', '.join(p['anchors']['files'])}

Your task: produce ONE realistic source change (the kind of slip or well-meant 'optimisation' a maintainer could commit) in the library sources that BREAKS the property, while (a) the workspace still compiles and (b) the existing test suite still passes (`cargo test {crates} --offline -j 4`). The change must need a specific input shape / configuration / history to manifest (it must not break ordinary use that the tests exercise). {steer}

If, while reading, you find that the UNMODIFIED code already violates the property, say so explicitly in your report (with the exact function and a failing input), and make your seeded change somewhere else.

Deliver, inside /tmp/seed/{name}/_out/ :
 1. patch.diff  - `git diff` of your change to the library sources only.
 2. demo/ - a small standalone cargo project (own Cargo.toml with path dependencies into /tmp/seed/{name}/..., an empty [workspace] table, and a Cargo.lock that resolves offline - copy /tmp/seed/{name}/Cargo.lock next to it and let cargo trim it) whose `cargo run --offline` exits 0 on the unmodified code and non-zero with your change applied.
 3. meta.json - {{"property":"{pid}","what_changed":"...","needs_to_manifest":"...","how_verified":"commands and results with and without the change"}}.

Verify all of it yourself: existing tests pass with the change; demo fails with it and passes without it. Leave the worktree with your change APPLIED (uncommitted). Report briefly what you changed and the verification results.""")
