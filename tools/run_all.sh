#!/bin/bash
# usage: tools/run_all.sh [quick|thorough] [ids...]   -- runs the registered checks on /repo, 3 at a time, and prints a summary
T=${1:-quick}; shift
cd /verif
IDS=${@:-$(python3 -c "import json;print(' '.join(c['property_id'] for c in json.load(open('MANIFEST.json'))['checks']))")}
mkdir -p work/_runall
printf "%s\n" $IDS | xargs -P 3 -I{} sh -c "./check {} --tier $T > work/_runall/{}.out 2>&1; echo \"{} exit=\$?\" >> work/_runall/summary.$T"
sort work/_runall/summary.$T | tail -20
