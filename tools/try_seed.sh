#!/bin/bash
# usage: tools/try_seed.sh <seed-name> <PROPERTY-ID> [tier]
# Runs ./check <ID> against a scratch copy of /repo with seeded/<seed-name>/patch.diff applied, WITHOUT touching
# /repo and without overwriting /verif/evidence (evidence, work files and replay files go to /var/tmp/verif-seed/).
set -u
S=$1; P=$2; T=${3:-quick}
V=/verif
D=/var/tmp/verif-seed/$S
rm -rf $D; mkdir -p $D
rsync -a --exclude /target --exclude /.git /repo/ $D/repo/
(cd $D/repo && patch -p1 -s < $V/seeded/$S/patch.diff) || { echo "patch does not apply"; exit 9; }
cd $V
# trials have their own build cache (never /verif/.cache, which ordinary runs use) and share it with each other:
# one trial per property at a time
mkdir -p /var/tmp/vp
VERIF_CACHE=/var/tmp/verif-seed/_cache VERIF_REPO=$D/repo VERIF_SCRATCH=$D/scratch VERIF_WORK=$D/work VERIF_EVIDENCE=$D/evidence VERIF_REPLAY_OUT=$D/replay flock /var/tmp/vp/trial.$P.lock ./check $P --tier $T
rc=$?
rm -rf $D/repo $D/scratch
echo "exit=$rc"
