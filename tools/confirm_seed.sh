#!/bin/bash
# usage: confirm_seed.sh <worktree-name> "<-p crate ...>"   : re-verifies a sub-agent's seeded change in its scratch worktree
# 1) existing tests pass with the change; 2) demo fails with it; 3) demo passes without it.
set -u
W=/tmp/seed/$1
source /w/out/rust_env.sh
export CARGO_TARGET_DIR=$W/target
cd $W || exit 9
git diff --stat | tail -1
echo "== tests with change"; cargo test $2 --offline 2>&1 | grep "^test result\|FAILED\|panicked" | sort | uniq -c
echo "== demo with change"; (cd _out/demo && cargo run --offline -q >/dev/null 2>&1; echo "exit=$?")
git stash -q
echo "== demo without change"; (cd _out/demo && cargo run --offline -q >/dev/null 2>&1; echo "exit=$?")
git stash pop -q
git diff --stat | tail -1
