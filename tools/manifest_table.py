SOURCE_COMMITS = []
NOTES = ("Contract-based deductive verification: Verus on functions extracted mechanically from /repo on every run, "
         "Kani/CBMC on the real crates (scratch copy + add-only cfg(kani) overlay). exit 2 = undecided (lost anchor, "
         "timeout, unsupported construct), never a VIOLATION. See DESIGN.md.")
ENGINES = [
    {"name": "E1-verus", "path": "engine/rsx.py, engine/verus.py, units/, contracts/", "serves_properties": ["C01", "C02", "C03", "C06", "C15", "C16", "C17"],
     "kind_free_text": "mechanical extraction + spec splicing -> single-file Verus (z3); unbounded proofs"},
    {"name": "E2-kani", "path": "engine/overlay.py, contracts/*/kani*.rs", "serves_properties": ["C02", "C03", "C06", "C07", "C11", "C14", "C15", "C19", "C20"],
     "kind_free_text": "cargo kani (CBMC) on a scratch copy of the real crates with an add-only cfg(kani) overlay"},
]
PENDING = "check not built yet (framework under construction; see DESIGN.md section 5 for the planned decision)"
CHECKS = {
    "C01": {
        "engine": "E1-verus",
        "category": "proof",
        "text": "Verus proves, for every index type and all store contents, that insert/remove of the four in-memory stores (real function text, extracted each run) implement set insertion/removal on the term-level set of triples/quads, return the exact changed-flag, keep the 3/6 secondary indexes coherent, leave the quad sets untouched when the term index is full, and do nothing for unknown terms.",
        "design_ref": "DESIGN.md 4.1, 4.2, 5 (C01)",
        "note": "Trusted: Verus/z3, vstd BTreeSet specs, lawful Ord on index arrays, stand-in TermIndex contract (the real SimpleTermIndex is only checked against it by bounded Kani), R0/R2 rewrites. The query dispatch (triples_matching / quads_matching) is outside both verifiers: it is covered only by a labelled bounded native stand-in (exhaustive histories <= 3 ops x all 16 shapes), never counted as proved.",
        "technique": "deductive verification (Verus contracts + data-structure invariant + set lemmas) of mechanically extracted code",
    },
    "C06": {
        "engine": "E1-verus",
        "category": "proof",
        "text": "Verus proves (unbounded, all element types and callbacks) that the permutation kernel used by Hash N-Degree Quads terminates, only ever hands permutations of its input to the callback and leaves a permutation behind; Kani shows it enumerates exactly n! distinct arrangements for n = 4, 5 (6 in the thorough tier). The composition of RDFC-1.0 (steps 2-6, the three hash procedures, the issuer, the sorted canonical N-Quads) is outside both verifiers and is compared, as a labelled bounded native stand-in, byte for byte with an independent transcription of the W3C algorithm on 69 086 small and symmetric datasets under SHA-256 and SHA-384.",
        "design_ref": "DESIGN.md 5 (C06)",
        "note": "Trusted: Verus/z3, assumed spec of <[T]>::swap, vstd multiset lemmas. The reference transcription (replay_src/c06/src/oracle.rs) is trusted as a reading of the W3C text. NOT proved: steps 2-6 of the canonicalisation algorithm, Hash N-Degree Quads, issuer (bounded differential check only); NOT covered: canonical N-Quads escaping of literals, non-default limits, datasets beyond the enumerated shapes.",
        "technique": "deductive verification (Verus requires/ensures/decreases, loop invariant, FnMut call obligations) of mechanically extracted code",
    },
    "C16": {
        "engine": "E1-verus",
        "category": "proof",
        "text": "For six anchored sites (the five matching iterators' next(), quoted_string) Verus accepts the real function text without a decreases clause on the function - its termination rule rejects any self-recursive exec function lacking one - and discharges the loops' decreases on the remaining input; so call depth does not depend on the number of rejected rows / escaped bytes. The recursion sites neither verifier reaches (stream adapters, SPARQL executor incl. GRAPH ?g, JSON-LD engine; pretty Turtle/TriG in the thorough tier) are labelled bounded native stand-ins: the real code processes 100 000 - 200 000 flat items on a 2 MiB stack in a dev build.",
        "design_ref": "DESIGN.md 5 (C16)",
        "note": "Call depth is the proxy for stack use (frame sizes are not measured). Trusted: Verus termination rule, U-ITER/U-ESC stand-ins. NOT covered: parsers (dependencies), frame sizes, recursion with frames so small that N items fit in 2 MiB.",
        "technique": "deductive verification (Verus termination obligations: no recursion without decreases; loop decreases) of mechanically extracted code",
    },
    "C02": {
        "engine": "E2-kani",
        "category": "model_checking",
        "text": "Verus proves, for all well-formed terms of any nesting depth, that the default Term::eq (with Triple::eq / eq_spo through which it recurses; real function text, extracted each run) decides exactly the equality the property states (same kind, same IRI / label / name, same lexical form and datatype, language tags equal up to ASCII case, quoted triples component-wise), and that this relation is an equivalence. Bounded Kani harnesses on the real default Term::eq / Term::cmp / Term::hash, LanguageTag Eq/Ord/Hash and NsTerm::eq against the term's identity key (kind rank, strings, tag folded to lower case): eq is the key equality, cmp is the key order (blank < IRI < literal < variable), Equal exactly for equal terms, antisymmetric, transitive; equal terms feed identical bytes to any hasher; NsTerm's prefix+suffix comparison agrees with whole-IRI equality at every split point.",
        "design_ref": "DESIGN.md 5 (C02)",
        "note": "Proved part: Term::eq only (stand-in accessor contracts, LanguageTag == assumed ASCII-case-insensitive and checked bounded). Bounded: one-byte components over {a, b, B}, atoms only (no quoted triples) for cmp / hash. Trusted: Kani/CBMC, validator stubs. NOT covered: conversions (from_term / into_term ...), sophia_term / rio / jsonld / sparql term types, longer or non-ASCII strings.",
        "technique": "deductive verification (Verus postcondition against a spec equality + equivalence lemmas) of mechanically extracted Term::eq; Kani proof harnesses (contracts as assume/assert against a reference key function), bounded, for cmp / hash / LanguageTag / NsTerm",
    },
    "C14": {
        "engine": "E2-kani",
        "category": "proof",
        "text": "Kani decides, per kind triple over {NativeInt, Float, Double} and over the full machine domain of the operands (non-NaN, loop-free harnesses), whether the numeric comparison used by ORDER BY (PartialOrd for &SparqlNumber) is a total preorder. It is on the exact fragment (|int| <= 2^24) for every triple, and on the full domain for the 16 triples without lossy promotion; the 4 triples mixing integers with float AND double fail and are listed as known findings with concrete witnesses replayed through the SPARQL engine. The ORDER BY comparator around that kernel (sparql_order_by, strings / booleans / dateTimes / big integers, class order, DESC, later keys) is outside both verifiers: a labelled bounded native stand-in checks it on a 40-value pool against an independent statement of '<'; three further known findings (cycles through NaN, an ill-typed literal, a timezone-less dateTime) are recorded with their witness triples.",
        "design_ref": "DESIGN.md 5 (C14), 8.3",
        "note": "Trusted: Kani/CBMC IEEE-754 semantics. NOT covered: the 7 kind triples with two NativeInt operands (CBMC > 40 min: symbolic BigInt), symbolic BigInt/BigDecimal (one representative harness), NaN / ill-typed literals / timezone-less dateTimes beyond the recorded witnesses, values outside the stand-in's pool.",
        "technique": "Kani proof harnesses over full-domain symbolic operands, one per variant triple (complete for the fragment), known findings matched by replayed witness",
    },
    "C17": {
        "engine": "E1-verus",
        "category": "proof",
        "text": "Verus proves for every base, IRI and heuristic candidate that Relativizer::relativize (real function text, extracted each run) returns Some(r) only if r is a valid IRI reference and BaseIri::resolve(base, r) returned exactly the IRI: the function's resolve-and-compare guard makes the soundness half of the property hold whatever the prefix heuristic computes.",
        "design_ref": "DESIGN.md 5 (C17), 8.3",
        "note": "Trusted: Verus/z3; BaseIri::resolve (oxiri) as the definition of RFC 3986 resolution; IriRef::new as the validity test. The parent-step bound, completeness (IRIs equal to the base up to query/fragment are always relativised) and Relativizer::new are covered only by a labelled bounded native stand-in (193 332 enumerated triples).",
        "technique": "deductive verification (Verus postcondition over an abstracted callee) of mechanically extracted code",
    },
    "C19": {
        "engine": "E2-kani",
        "category": "model_checking",
        "text": "std::fs::read is given an assumed contract with the precondition confined(path, configured directory); a Kani stub asserts it at the call site inside LocalLoader::get. Checked for representative concrete IRIs of each escape class (leading '/', '..', inner '../..', './' and empty segments, fragment, foreign namespace); servable IRIs must still reach the read.",
        "design_ref": "DESIGN.md 5 (C19), 8.3",
        "note": "Bounded: concrete representative IRIs only (CBMC does not finish on symbolic suffixes: std::path parsing, measured 50 min for 3 symbolic bytes). Trusted: Kani/CBMC, validator stubs, LocalLoader built without LocalLoader::check. NOT covered: nested/overlapping namespaces, extension retry, symlinks.",
        "technique": "Kani: callee (std::fs::read) replaced by a stub carrying its precondition, asserted at the real call site; bounded to representative inputs",
    },
    "C07": {
        "engine": "E2-kani",
        "category": "model_checking",
        "text": "Bounded Kani harnesses on the real comparison kernel of the isomorphism test (IsoTerm ==/Ord/iso_cmp): equal exactly when the terms coincide after blanking every blank node, including inside quoted triples; Ord consistent and antisymmetric. The colour-refinement part is not under contract.",
        "design_ref": "DESIGN.md 5 (C07)",
        "note": "Bounded: 1-byte payloads over {a,b}, nesting depth 1. Trusted: Kani/CBMC, validator stubs. make_map/hash_quad_with (HashMap + SipHash) are out of CBMC's reach: end-to-end isomorphic_datasets is covered only by a labelled bounded native stand-in (all datasets of <= 2 quads over a small term pool).",
        "technique": "Kani proof harnesses (assume/assert contracts on the real generic code), bounded",
    },
    "C11": {
        "engine": "E2-kani",
        "category": "model_checking",
        "text": "Bounded Kani harnesses check the forwarding contracts of the real view adapters against a recording store: matchers reach the store in the right positions, the graph position carries Any / the selector / exactly the view's graph name, graph names are dropped/added, mutations carry the view's graph name and return the store's flag, GraphAsDataset answers only for the default graph.",
        "design_ref": "DESIGN.md 5 (C11)",
        "note": "Bounded: probe matchers and three probe graph names. Coherence with the store's content then follows from the store's own quads_matching contract (C01), which is assumed here. The views over the real stores (incl. remove_matching / retain_matching through a mutable view, term enumerations) are additionally enumerated natively on 660 small datasets as a labelled bounded stand-in. Trusted: Kani/CBMC, validator stubs.",
        "technique": "Kani proof harnesses with a contract-recording stand-in for the callee (modular: the view is checked against the store's contract, not its body), bounded",
    },
    "C15": {
        "engine": "E2-kani",
        "category": "proof",
        "text": "Kani proves the step contract of Source::try_for_some_item (end / source error / item; callback called exactly once with the mapped item iff it passes; error side and value preserved) for the Iterator source, all 39 adapter chains of depth <= 3 and the three Rio adapters, with loop-free harnesses over symbolic outcomes, adapter parameters and sink results (complete). A Verus lemma (lemma_prefix, unbounded) derives the whole-stream statement from the step contract by induction; the real drivers (try_for_each_item, insert_all, remove_all) are run for all streams of 3 outcomes (bounded) to tie the lemma's driver to the real loop.",
        "design_ref": "DESIGN.md 4.4, 5 (C15)",
        "note": "Trusted: Kani/CBMC, Verus/z3; closures over u8 items stand for arbitrary items; a stub Rio parser replaces rio_turtle; lemma_prefix is a spec-level lemma (no extracted code). The IntoIterator forms of the adapters (VecDeque buffering) and real parser sources are covered only by a labelled bounded native stand-in. Not covered: serializer sinks, collect_*.",
        "technique": "Kani proof harnesses stating pre/postconditions of the real functions; loop-free full-domain harnesses (complete) plus bounded stream drivers",
    },
    "C20": {
        "engine": "E2-kani",
        "category": "proof",
        "text": "Kani proves on the real code, for EVERY i32 (quick) and every isize/usize (thorough), that lexical_form() lies in the xsd:integer lexical space (full domain, digit loops bounded by type width, unwinding assertions on), and that both bools round-trip; the three non-finite f64 representatives give INF/-INF/NaN (bounded: representatives).",
        "design_ref": "DESIGN.md 5 (C20)",
        "note": "Trusted: Kani/CBMC, validator stubs (regex engine out of reach). Finite f64 values (shortest round-trip fmt / dec2flt), integer round trips parse(format(x)) == x and try_from_term on boundary / special lexical forms are out of CBMC's reach (measured > 1 h) and are only sampled by a labelled bounded native stand-in (200 000 f64 bit patterns, every decimal and binary exponent, out-of-range and non-XSD forms).",
        "technique": "Kani proof harnesses over the full machine domain of the native type (complete), representatives for non-finite floats (bounded)",
    },
    "C03": {
        "engine": "E1-verus",
        "category": "proof",
        "text": "Verus proves, for every term value at every nesting depth, that write_term / write_triple (real function text, extracted each run) write exactly the N-Triples term syntax fmt_term(t) - <iri>, _:label, \"esc(lex)\" with @tag or ^^<dt> iff the datatype is not xsd:string, << s p o >> - and for all byte strings that quoted_string writes exactly esc(lexical form); lemmas over esc give unesc(esc(s)) == s, one statement per line, image inside the W3C STRING_LITERAL_QUOTE body, UTF-8 preserved.",
        "design_ref": "DESIGN.md 4.5, 5 (C03)",
        "note": "Trusted: Verus/z3, write_all contract, byte-literal axioms L1 (cross-checked by the rustc guard), rewrites R1/R3/R4 (R1/R4 guarded differentially), Rio parser conformance to the W3C grammar; term framing is bounded (Kani, 1-byte components), statement framing is a labelled bounded native stand-in (1710 quads through the real serializers and parsers).",
        "technique": "deductive verification (Verus pre/postconditions, loop invariants, lemmas) of mechanically extracted code",
    },
}
NOT_APPLICABLE = {}
NOT_APPLICABLE.update({
    "C04": "Turtle/TriG pretty-printer and Rio formatter: 800 lines of shape heuristics over HashMap/BTreeMap of GAT terms plus five regexes, and the other half of the property is Rio's parser; no function in the chain has a contract expressible in Verus' subset (regex, GATs, trait-object iterators) and Kani cannot reach the regexes (compiler ICE) - stubbing them removes the decisions the property is about",
    "C05": "'equal canonical output <=> isomorphic input' is a meta-theorem about RDFC-1.0 under collision-freeness of SHA-256, quantified over pairs of datasets and all label bijections; it is not a pre/postcondition of any function. The contractible kernels are checked under C06",
    "C08": "the parsers are rio_turtle / rio_xml / json-ld (dependencies, not under contract); sophia's own part is the Trusted<..> wrapper whose soundness is a language inclusion between a third-party parser and a regex - outside both verifiers. The loop-free adapter layer is proved under C15",
    "C09": "equality of the language of a 200-line regex (executed by the regex crate) with the RFC 3987 ABNF, and its inclusion in oxiri's parser: language-equivalence statements about two recognisers that neither verifier can execute (regex_automata makes kani-compiler ICE; Verus has no str/regex)",
    "C10": "the carrying code is HashMap<SimpleTerm,_> plus an unsafe 'static transmute: outside Verus' subset, and CBMC runs out of memory on std's HashMap even with fixed SipHash keys and one concrete term (measured: 40 min, > 24 GB). The defect the property is about was nevertheless found and repaired (fix: 3b52009) and is demonstrated by replay_src/c10 under Miri - not a contract check, hence not claimed",
    "C12": "JSON-LD serializer builds json-syntax values through label-keyed hash maps and the inverse direction is the json-ld crate's expansion algorithm; neither the data types nor the relational round-trip property are within reach of a function contract in Verus or a tractable Kani harness",
    "C13": "the oracle is the SPARQL 1.1 algebra over spargebra ASTs and the engine is a tree of boxed, chained, lifetime-erased iterators over GAT terms with Arc/HashSet state; no function-level contract expresses 'equals the algebra'. The numeric comparison kernel is decided under C14",
    "C18": "serialisation is Rio's RdfXmlFormatter and parsing is rio_xml over quick-xml; sophia contributes a term conversion only, the property is about the dependencies' escaping and whitespace handling",
})
