#!/bin/bash
# usage: tools/regress_seeds.sh [seed ...]  -- runs every seed of /verif/seeded (or the given ones) against the check of its
# property (quick tier) on a scratch copy and writes one line per seed to seeded/RESULTS.txt:  <seed> <property> exit=<rc> <failed obligations>
# several instances may run side by side over disjoint seed lists (the update of RESULTS.txt is under a lock)
# expected: exit=1 for seeded breakages and own-* (re-introduced defects), exit=0 (or 2) for benign-*; never exit=1 for benign-*.
cd /verif
OUT=seeded/RESULTS.txt
SEEDS=${@:-$(ls seeded | grep -v RESULTS)}
for s in $SEEDS; do
  [ -f seeded/$s/patch.diff ] || continue
  if [ -f seeded/$s/meta.json ]; then P=$(python3 -c "import json,re;m=json.load(open('seeded/$s/meta.json'));p=m.get('property','');r=re.findall(r'C\d\d',p+' '+m.get('what_i_ran',''));print(' '.join(dict.fromkeys(r)))"); else P=""; fi
  [ -z "$P" ] && P=$(echo $s | grep -o 'C[0-9][0-9]' | head -1)
  # several instances share the work: the first to create the claim directory runs the seed (REGRESS_CLAIMS=<dir>);
  # claims are per seed, not per (seed, property), because the trials of one seed share a scratch directory
  if [ -n "${REGRESS_CLAIMS:-}" ]; then mkdir -p $REGRESS_CLAIMS; mkdir $REGRESS_CLAIMS/${s} 2>/dev/null || continue; fi
  for p in $P; do
    tools/try_seed.sh $s $p > /var/tmp/vp/regress_${s}_${p}.out 2>&1
    rc=$(grep -o 'exit=[0-9]*' /var/tmp/vp/regress_${s}_${p}.out | tail -1)
    ob=$(grep 'failed obligation' /var/tmp/vp/regress_${s}_${p}.out | sed 's/.*failed obligation: //' | sort -u | tr '\n' ' ')
    ( flock 9; grep -v "^$s $p " $OUT > $OUT.tmp.$$ 2>/dev/null; mv $OUT.tmp.$$ $OUT 2>/dev/null
      echo "$s $p $rc $ob" >> $OUT; sort -o $OUT $OUT ) 9> /var/tmp/vp/results.lock
  done
done
