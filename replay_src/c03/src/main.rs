//! Replay / enumerator for C03 (N-Triples literal escaping), run against the real sophia_turtle crate.
//!   enum  : all byte strings (valid UTF-8 only) of length <= 4 over a 9-symbol alphabet, through the public
//!           serializer API; oracle = esc() transcribed from contracts/esc/spec.rs; then parse back.
//!   guard : the R1/R3/R4-rewritten text of quoted_string (spec stripped, included from rewritten.rs) against
//!           the real function (reached through write_term), same domain + seeded random strings.
use sophia_api::prelude::*;
use sophia_api::term::SimpleTerm;
use sophia_api::ns::xsd;
use sophia_turtle::serializer::nt::write_term;
use std::io;

#[allow(unused_mut, dead_code, unused_variables)]
mod rewritten {
    use std::io;
    include!("rewritten.rs");
}

fn esc(s: &[u8]) -> Vec<u8> {
    let mut o = vec![];
    for &c in s {
        match c {
            10 => o.extend(b"\\n"),
            13 => o.extend(b"\\r"),
            34 => o.extend(b"\\\""),
            92 => o.extend(b"\\\\"),
            c => o.push(c),
        }
    }
    o
}

fn real(lex: &str) -> Vec<u8> {
    let t = SimpleTerm::LiteralDatatype(lex.into(), xsd::string.iri().unwrap());
    let mut w = vec![];
    write_term(&mut w, &t).unwrap();
    w
}

fn domain(maxlen: usize) -> Vec<String> {
    let alpha: [&str; 9] = ["a", "\n", "\r", "\"", "\\", "\t", "é", "\u{7f}", "😀"];
    let mut all = vec![String::new()];
    let mut frontier = vec![String::new()];
    for _ in 0..maxlen {
        let mut next = vec![];
        for s in &frontier {
            for a in alpha {
                let mut t = s.clone();
                t.push_str(a);
                next.push(t);
            }
        }
        all.extend(next.iter().cloned());
        frontier = next;
    }
    all
}

fn parse_back(doc: &[u8]) -> Option<String> {
    use sophia_turtle::parser::nt;
    use sophia_api::source::TripleSource;
    let mut got = None;
    let r = nt::parse_bufread(io::BufReader::new(doc)).for_each_triple(|t| {
        got = t.o().lexical_form().map(|l| l.to_string());
    });
    if r.is_err() { return None; }
    got
}

fn main() {
    let mode = std::env::args().nth(1).unwrap_or_else(|| "enum".into());
    let seed: u64 = std::env::args().nth(2).and_then(|s| s.parse().ok()).unwrap_or(0);
    let mut dom = domain(4);
    // seeded random strings
    let mut x = seed.wrapping_mul(6364136223846793005).wrapping_add(1442695040888963407);
    for _ in 0..2000 {
        let mut s = String::new();
        x = x.wrapping_mul(6364136223846793005).wrapping_add(1442695040888963407);
        let len = (x >> 33) % 65;
        for _ in 0..len {
            x = x.wrapping_mul(6364136223846793005).wrapping_add(1442695040888963407);
            let c = match (x >> 33) % 12 { 0 => '\n', 1 => '\r', 2 => '"', 3 => '\\', 4 => 'é', 5 => '\u{0}', 6 => '\u{10ffff}', _ => (b'a' + ((x >> 40) % 26) as u8) as char };
            s.push(c);
        }
        dom.push(s);
    }
    let mut n = 0usize;
    for s in &dom {
        n += 1;
        let r = real(s);
        match mode.as_str() {
            "enum" => {
                let mut want = vec![b'"'];
                want.extend(esc(s.as_bytes()));
                want.push(b'"');
                if r != want {
                    println!("{{\"mismatch\":\"serializer output differs from '\\\"'+esc(lexical form)+'\\\"'\",\"lexical_form\":{:?},\"got\":{:?},\"want\":{:?}}}", s, String::from_utf8_lossy(&r), String::from_utf8_lossy(&want));
                    std::process::exit(1);
                }
                let mut doc = b"<x:s> <x:p> ".to_vec();
                doc.extend(&r);
                doc.extend(b" .\n");
                let back = parse_back(&doc);
                if back.as_deref() != Some(s.as_str()) {
                    println!("{{\"mismatch\":\"parse(serialize(l)) != l\",\"lexical_form\":{:?},\"got\":{:?}}}", s, back);
                    std::process::exit(1);
                }
            }
            "guard" => {
                let mut w = vec![b'"'];
                rewritten::quoted_string(&mut w, s.as_bytes()).unwrap();
                w.push(b'"');
                if r != w {
                    println!("{{\"guard_mismatch\":{:?}}}", s);
                    std::process::exit(3);
                }
            }
            _ => panic!("mode"),
        }
    }
    println!("{{\"ok\":true,\"mode\":{:?},\"cases\":{}}}", mode, n);
}
