//! Replay / enumerator for C03 (N-Triples literal escaping), run against the real sophia_turtle crate.
//!   enum  : all byte strings (valid UTF-8 only) of length <= 4 over a 9-symbol alphabet, through the public
//!           serializer API; oracle = esc() transcribed from contracts/esc/spec.rs; then parse back.
//!   guard : the R1/R3/R4-rewritten text of quoted_string (spec stripped, included from rewritten.rs) against
//!           the real function (reached through write_term), same domain + seeded random strings.
use sophia_api::prelude::*;
use sophia_api::term::SimpleTerm;
use sophia_api::ns::xsd;
use sophia_turtle::serializer::nt::write_term;
use std::io;

#[allow(unused_mut, dead_code, unused_variables)]
mod rewritten {
    use std::io;
    include!("rewritten.rs");
}

fn esc(s: &[u8]) -> Vec<u8> {
    let mut o = vec![];
    for &c in s {
        match c {
            10 => o.extend(b"\\n"),
            13 => o.extend(b"\\r"),
            34 => o.extend(b"\\\""),
            92 => o.extend(b"\\\\"),
            c => o.push(c),
        }
    }
    o
}

fn real(lex: &str) -> Vec<u8> {
    let t = SimpleTerm::LiteralDatatype(lex.into(), xsd::string.iri().unwrap());
    let mut w = vec![];
    write_term(&mut w, &t).unwrap();
    w
}

fn domain(maxlen: usize) -> Vec<String> {
    let alpha: [&str; 9] = ["a", "\n", "\r", "\"", "\\", "\t", "é", "\u{7f}", "😀"];
    let mut all = vec![String::new()];
    let mut frontier = vec![String::new()];
    for _ in 0..maxlen {
        let mut next = vec![];
        for s in &frontier {
            for a in alpha {
                let mut t = s.clone();
                t.push_str(a);
                next.push(t);
            }
        }
        all.extend(next.iter().cloned());
        frontier = next;
    }
    all
}

fn parse_back(doc: &[u8]) -> Option<String> {
    use sophia_turtle::parser::nt;
    use sophia_api::source::TripleSource;
    let mut got = None;
    let r = nt::parse_bufread(io::BufReader::new(doc)).for_each_triple(|t| {
        got = t.o().lexical_form().map(|l| l.to_string());
    });
    if r.is_err() { return None; }
    got
}

/// whole statements through the real serializers and parsers: a pool of terms of every kind (IRIs, blank nodes,
/// literals with xsd:string, datatypes that merely resemble xsd:string, other datatypes, language tags in several
/// cases, empty lexical forms, quoted triples in subject and object position, nested), every (s, o, g) combination
/// from the pool: N-Quads and N-Triples text must be one statement per line and parse back to the same quads.
fn statements() {
    use sophia_api::dataset::{Dataset, MutableDataset};
    use sophia_api::quad::{Quad, Spog};
    use sophia_api::serializer::{QuadSerializer, Stringifier, TripleSerializer};
    use sophia_api::source::{QuadSource, TripleSource};
    use sophia_api::term::{BnodeId, IriRef, LanguageTag};
    use sophia_turtle::parser::{nq, nt};
    use sophia_turtle::serializer::{nq::NqSerializer, nt::NtSerializer};
    type T = SimpleTerm<'static>;
    let iri = |s: &str| -> T { SimpleTerm::Iri(IriRef::new_unchecked(s.to_string().into())) };
    let lit = |l: &str, dt: &str| -> T { SimpleTerm::LiteralDatatype(l.to_string().into(), IriRef::new_unchecked(dt.to_string().into())) };
    let lang = |l: &str, t: &str| -> T { SimpleTerm::LiteralLanguage(l.to_string().into(), LanguageTag::new_unchecked(t.to_string().into())) };
    let bn = |s: &str| -> T { SimpleTerm::BlankNode(BnodeId::new_unchecked(s.to_string().into())) };
    let xs = "http://www.w3.org/2001/XMLSchema#";
    let mut objs: Vec<T> = vec![
        iri("http://example.org/a"), iri("x:a#frag"), bn("b1"), bn("a.b-c"),
        lit("x", &format!("{}string", xs)), lit("", &format!("{}string", xs)), lit("x", &format!("{}integer", xs)), lit("x", &format!("{}token", xs)),
        lit("x", "https://www.w3.org/2001/XMLSchema#string"), lit("x", "http://www.w3.org/2001/XMLSchema#strin"), lit("x", "http://www.w3.org/2001/XMLSchema#String"),
        lit("x", "urn:x://www.w3.org/2001/XMLSchema#string"), lit("x", "http://example.org/ns#string"),
        lit("x", "http://www.w3.org/2001/XMLSchema#substring"), lit("x", "http://www.w3.org/2001/XMLSchema#xstring"), lit("x", "http://www.w3.org/2001/XMLSchema#stringstring"),
        lang("x", "en"), lang("", "en"), lang("x", "EN-us"), lang("x", "de-CH-1996"), lang("x", "en-Latn-US-x-private"), lang("x", "zh-Hant-TW-u-ca-chinese-x-a"), lit("a\"b\\c\nd", &format!("{}string", xs)), lit("é😀", "x:d"),
        // surrounding / inner white space is part of the lexical form, whatever the datatype
        lit(" 7", &format!("{}integer", xs)), lit("7 ", &format!("{}integer", xs)), lit("\t7\n", &format!("{}integer", xs)), lit(" ", "x:d"), lit("\u{a0}7\u{2028}", "x:d"),
        lit(" x ", &format!("{}string", xs)), lang(" x ", "en"),
        // every C0 control, DEL, NEL, LS, BOM, non-characters: whatever escape is chosen, the same code point comes back
        lit("\u{0}\u{1}\u{2}\u{3}\u{4}\u{5}\u{6}\u{7}", "x:d"), lit("\u{8}", "x:d"), lit("\u{9}", "x:d"), lit("\u{b}", "x:d"), lit("\u{c}", "x:d"), lit("a\u{b}b\u{c}c\u{8}d\u{9}e", &format!("{}string", xs)),
        lit("\u{e}\u{f}\u{10}\u{1a}\u{1b}\u{1f}\u{7f}", "x:d"), lang("\u{b}", "en"), lit("\u{85}\u{2028}\u{feff}\u{fffe}\u{ffff}", "x:d"),
        // IRIs are opaque: dot segments, empty segments, percent-escapes, case are kept as written
        iri("http://example.org/doc/../b"), iri("http://example.org/doc/./b"), iri("http://example.org/b"), iri("http://example.org/doc/sub/.."), iri("http://example.org//a/%7Eb"), iri("http://example.org/a/~b"), iri("HTTP://EXAMPLE.org/A"),
        lit("x", "http://example.org/dt/../string"),
        // blank node labels over the whole PN_CHARS repertoire (middle dot, combining mark, undertie, currency sign,
        // leading digit, non-BMP letter); pairs that a lossy writer would merge
        bn("a\u{b7}b"), bn("a_b"), bn("e\u{301}"), bn("x\u{203f}y"), bn("1\u{20ac}"), bn("\u{10400}z"), bn("a.b.c"),
    ];
    let q1 = SimpleTerm::Triple(Box::new([bn("b1"), iri("x:p"), lit("x", "https://www.w3.org/2001/XMLSchema#string")]));
    let q2 = SimpleTerm::Triple(Box::new([q1.clone(), iri("x:p"), lang("x", "en")]));
    objs.push(q1.clone());
    objs.push(q2.clone());
    let subjs: Vec<T> = vec![iri("http://example.org/s"), bn("b2"), q1.clone(), q2.clone(), bn("s\u{b7}1\u{203f}"), iri("http://example.org/x/../s")];
    let graphs: Vec<Option<T>> = vec![None, Some(iri("http://example.org/g")), Some(bn("g1")), Some(bn("g\u{b7}\u{301}")), Some(iri("http://example.org/x/./g"))];
    let mut n = 0;
    for s in &subjs { for o in &objs { for g in &graphs {
        n += 1;
        let quad: Spog<T> = ([s.clone(), iri("x:p"), o.clone()], g.clone());
        let d: Vec<Spog<T>> = vec![quad.clone()];
        let txt = NqSerializer::new_stringifier().serialize_dataset(&d).unwrap().to_string();
        if txt.matches('\n').count() != 1 || !txt.ends_with('\n') { println!("{{\"mismatch\":\"N-Quads output is not one statement per line\",\"quad\":\"{:?}\",\"text\":{:?}}}", quad, txt); std::process::exit(1); }
        let back: Result<Vec<Spog<T>>, _> = nq::parse_str(&txt).collect_quads();
        let same = match &back { Ok(v) => v.len() == 1 && Quad::eq(&v[0], quad.clone()), Err(_) => false };
        if !same { println!("{{\"mismatch\":\"N-Quads round trip changes the quad\",\"quad\":\"{:?}\",\"text\":{:?},\"parsed\":\"{:?}\"}}", quad, txt, back.map_err(|e| e.to_string())); std::process::exit(1); }
        if g.is_none() {
            let t3: Vec<[T; 3]> = vec![quad.0.clone()];
            let txt = NtSerializer::new_stringifier().serialize_graph(&t3).unwrap().to_string();
            let back: Result<Vec<[T; 3]>, _> = nt::parse_str(&txt).collect_triples();
            let same = match &back { Ok(v) => v.len() == 1 && sophia_api::triple::Triple::eq(&v[0], t3[0].clone()), Err(_) => false };
            if !same || txt.matches('\n').count() != 1 { println!("{{\"mismatch\":\"N-Triples round trip changes the triple\",\"triple\":\"{:?}\",\"text\":{:?}}}", t3[0], txt); std::process::exit(1); }
        }
    }}}
    // whole datasets through ONE serializer call (0, 1, 80, 100, 150, 400, 1000 mixed statements: the text crosses
    // several multiples of 4 / 8 / 16 KiB), via the stringifier and via a plain io::Write
    for size in [0usize, 1, 80, 100, 150, 400, 1000] {
        let d: Vec<Spog<T>> = (0..size).map(|i| ([subjs[i % subjs.len()].clone(), iri(&format!("http://example.org/p{}", i)), objs[i % objs.len()].clone()], graphs[i % graphs.len()].clone())).collect();
        n += 1;
        let txt1 = NqSerializer::new_stringifier().serialize_dataset(&d).unwrap().to_string();
        let mut sink: Vec<u8> = vec![];
        NqSerializer::new(&mut sink).serialize_dataset(&d).unwrap();
        let txt2 = String::from_utf8(sink).unwrap();
        for (how, txt) in [("stringifier", &txt1), ("io::Write", &txt2)] {
            if txt.matches('\n').count() != size { println!("{{\"mismatch\":\"N-Quads output of {} statements ({}) has {} lines\"}}", size, how, txt.matches('\n').count()); std::process::exit(1); }
            let back: Result<Vec<Spog<T>>, _> = nq::parse_str(txt).collect_quads();
            let same = match &back { Ok(v) => v.len() == size && v.iter().zip(d.iter()).all(|(a, b)| Quad::eq(a, b.clone())), Err(_) => false };
            if !same { println!("{{\"mismatch\":\"N-Quads round trip of a dataset of {} statements ({}, {} bytes) changes it\",\"parsed\":\"{:?}\"}}", size, how, txt.len(), back.map(|v| v.len()).map_err(|e| e.to_string())); std::process::exit(1); }
        }
        let t3: Vec<[T; 3]> = d.iter().map(|q| q.0.clone()).collect();
        let txt = NtSerializer::new_stringifier().serialize_graph(&t3).unwrap().to_string();
        let back: Result<Vec<[T; 3]>, _> = nt::parse_str(&txt).collect_triples();
        let same = match &back { Ok(v) => v.len() == size && v.iter().zip(t3.iter()).all(|(a, b)| sophia_api::triple::Triple::eq(a, b.clone())), Err(_) => false };
        if !same || txt.matches('\n').count() != size { println!("{{\"mismatch\":\"N-Triples round trip of a graph of {} statements ({} bytes) changes it\"}}", size, txt.len()); std::process::exit(1); }
    }
    println!("{{\"ok\":true,\"mode\":\"stmts\",\"cases\":{}}}", n);
}

fn main() {
    let mode = std::env::args().nth(1).unwrap_or_else(|| "enum".into());
    if mode == "stmts" { statements(); return; }
    let seed: u64 = std::env::args().nth(2).and_then(|s| s.parse().ok()).unwrap_or(0);
    let mut dom = domain(4);
    // seeded random strings
    let mut x = seed.wrapping_mul(6364136223846793005).wrapping_add(1442695040888963407);
    for _ in 0..2000 {
        let mut s = String::new();
        x = x.wrapping_mul(6364136223846793005).wrapping_add(1442695040888963407);
        let len = (x >> 33) % 65;
        for _ in 0..len {
            x = x.wrapping_mul(6364136223846793005).wrapping_add(1442695040888963407);
            let c = match (x >> 33) % 12 { 0 => '\n', 1 => '\r', 2 => '"', 3 => '\\', 4 => 'é', 5 => '\u{0}', 6 => '\u{10ffff}', _ => (b'a' + ((x >> 40) % 26) as u8) as char };
            s.push(c);
        }
        dom.push(s);
    }
    let mut n = 0usize;
    for s in &dom {
        n += 1;
        let r = real(s);
        match mode.as_str() {
            "enum" => {
                let mut want = vec![b'"'];
                want.extend(esc(s.as_bytes()));
                want.push(b'"');
                if r != want {
                    println!("{{\"mismatch\":\"serializer output differs from '\\\"'+esc(lexical form)+'\\\"'\",\"lexical_form\":{:?},\"got\":{:?},\"want\":{:?}}}", s, String::from_utf8_lossy(&r), String::from_utf8_lossy(&want));
                    std::process::exit(1);
                }
                let mut doc = b"<x:s> <x:p> ".to_vec();
                doc.extend(&r);
                doc.extend(b" .\n");
                let back = parse_back(&doc);
                if back.as_deref() != Some(s.as_str()) {
                    println!("{{\"mismatch\":\"parse(serialize(l)) != l\",\"lexical_form\":{:?},\"got\":{:?}}}", s, back);
                    std::process::exit(1);
                }
            }
            "guard" => {
                let mut w = vec![b'"'];
                rewritten::quoted_string(&mut w, s.as_bytes()).unwrap();
                w.push(b'"');
                if r != w {
                    println!("{{\"guard_mismatch\":{:?}}}", s);
                    std::process::exit(3);
                }
            }
            _ => panic!("mode"),
        }
    }
    println!("{{\"ok\":true,\"mode\":{:?},\"cases\":{}}}", mode, n);
}
