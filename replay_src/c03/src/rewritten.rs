// placeholder, overwritten on every run by the extractor
