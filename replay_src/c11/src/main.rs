//! Replay / small-domain enumerator for C11 on the real adapters over FastDataset and Vec<Spog>: every dataset
//! of <= 3 quads over 2 terms x 3 graph names; union / partial-union / single-graph views vs filtering the store;
//! mutations through the view vs direct mutations.
use sophia_api::dataset::{Dataset, MutableDataset};
use sophia_api::graph::{Graph, MutableGraph};
use sophia_api::graph::adapter::{DatasetGraph, PartialUnionGraph};
use sophia_api::quad::{Quad, Spog};
use sophia_api::term::matcher::Any;
use sophia_api::term::{GraphName, IriRef, SimpleTerm, Term};
use sophia_api::triple::Triple;
use sophia_inmem::dataset::FastDataset;
use std::collections::BTreeSet;

type T = SimpleTerm<'static>;
fn t(i: u8) -> T { SimpleTerm::Iri(IriRef::new_unchecked(format!("x:{}", i).into())) }
fn g(i: u8) -> GraphName<T> { if i == 0 { None } else { Some(t(10 + i)) } }
fn num(x: &impl Term) -> u8 { x.iri().unwrap().as_str()[2..].parse().unwrap() }
type Q = (u8, u8, u8, u8);
fn fail(what: &str, ds: &[Q], detail: String) -> ! { println!("{{\"mismatch\":{:?},\"dataset\":\"{:?}\",\"detail\":{:?}}}", what, ds, detail); std::process::exit(1) }

fn check<D: Dataset + MutableDataset + Default>(name: &str, qs: &[Q]) where <D as MutableDataset>::MutationError: From<<D as Dataset>::Error> {
    let mut d = D::default();
    for q in qs { d.insert(t(q.0), t(q.1), t(q.2), g(q.3)).unwrap(); }
    let set: BTreeSet<Q> = qs.iter().cloned().collect();
    let trip = |it: &mut dyn Iterator<Item = (u8, u8, u8)>| -> Vec<(u8, u8, u8)> { let mut v: Vec<_> = it.collect(); v.sort(); v };
    // union graph
    let want = trip(&mut set.iter().map(|q| (q.0, q.1, q.2)));
    let got = trip(&mut d.union_graph().triples().map(|x| { let x = x.unwrap(); (num(&x.s()), num(&x.p()), num(&x.o())) }));
    if got != want { fail("union_graph().triples()", qs, format!("{} got {:?} want {:?}", name, got, want)); }
    let gotm = trip(&mut d.union_graph().triples_matching(Any, Any, Any).map(|x| { let x = x.unwrap(); (num(&x.s()), num(&x.p()), num(&x.o())) }));
    if gotm != want { fail("union_graph().triples_matching(Any,Any,Any)", qs, format!("{} got {:?} want {:?}", name, gotm, want)); }
    let want1 = trip(&mut set.iter().filter(|q| q.0 == 1).map(|q| (q.0, q.1, q.2)));
    let got1 = trip(&mut d.union_graph().triples_matching([t(1)], Any, Any).map(|x| { let x = x.unwrap(); (num(&x.s()), num(&x.p()), num(&x.o())) }));
    if got1 != want1 { fail("union_graph().triples_matching([1],Any,Any)", qs, format!("{} got {:?} want {:?}", name, got1, want1)); }
    // pattern queries through every view with constant, multi-valued, closure and negated matchers in each position
    {
        use sophia_api::term::matcher::Not;
        let tnum = |x: &T| num(x);
        macro_rules! views { ($what:expr, $sm:expr, $pm:expr, $om:expr, $pred:expr) => {{
            let want_of = |sel: &dyn Fn(u8) -> bool| -> Vec<(u8, u8, u8)> { let mut v: Vec<(u8, u8, u8)> = set.iter().filter(|q| sel(q.3)).map(|q| (q.0, q.1, q.2)).filter($pred).collect(); v.sort(); v };
            let got_u = trip(&mut d.union_graph().triples_matching($sm, $pm, $om).map(|x| { let x = x.unwrap(); (num(&x.s()), num(&x.p()), num(&x.o())) }));
            if got_u != want_of(&|_| true) { fail("union_graph().triples_matching(..)", qs, format!("{} {}: got {:?} want {:?}", name, $what, got_u, want_of(&|_| true))); }
            for gi in 0..3u8 {
                let got_g = trip(&mut DatasetGraph::new(&d, g(gi)).triples_matching($sm, $pm, $om).map(|x| { let x = x.unwrap(); (num(&x.s()), num(&x.p()), num(&x.o())) }));
                if got_g != want_of(&|x| x == gi) { fail("graph(g).triples_matching(..)", qs, format!("{} {} g={}: got {:?} want {:?}", name, $what, gi, got_g, want_of(&|x| x == gi))); }
                let gg = g(gi); let sel = [None, gg.as_ref()];
                let got_p = trip(&mut PartialUnionGraph::new(&d, sel).triples_matching($sm, $pm, $om).map(|x| { let x = x.unwrap(); (num(&x.s()), num(&x.p()), num(&x.o())) }));
                if got_p != want_of(&|x| x == 0 || x == gi) { fail("partial_union_graph([default,g]).triples_matching(..)", qs, format!("{} {} g={}: got {:?} want {:?}", name, $what, gi, got_p, want_of(&|x| x == 0 || x == gi))); }
                let got_c = trip(&mut PartialUnionGraph::new(&d, |x: GraphName<SimpleTerm>| x.map(|y| tnum(&y.into_term::<T>()) - 10 != gi).unwrap_or(true)).triples_matching($sm, $pm, $om).map(|x| { let x = x.unwrap(); (num(&x.s()), num(&x.p()), num(&x.o())) }));
                if got_c != want_of(&|x| x != gi || x == 0) { fail("partial_union_graph(closure).triples_matching(..)", qs, format!("{} {} all but g={}: got {:?} want {:?}", name, $what, gi, got_c, want_of(&|x| x != gi || x == 0))); }
            }
        }}}
        views!("([1],[1],*)", [t(1)], [t(1)], Any, |x: &(u8, u8, u8)| x.0 == 1 && x.1 == 1);
        views!("([2],*,[1,2])", [t(2)], Any, [t(1), t(2)], |x: &(u8, u8, u8)| x.0 == 2);
        views!("([1],*,closure o=2)", [t(1)], Any, |o: SimpleTerm| num(&o) == 2, |x: &(u8, u8, u8)| x.0 == 1 && x.2 == 2);
        views!("(*,[1],Not([1]))", Any, [t(1)], Not([t(1)]), |x: &(u8, u8, u8)| x.1 == 1 && x.2 != 1);
        views!("([1,2],[1],[2])", [t(1), t(2)], [t(1)], [t(2)], |x: &(u8, u8, u8)| x.1 == 1 && x.2 == 2);
        views!("(closure s=2,*,[1])", |s: SimpleTerm| num(&s) == 2, Any, [t(1)], |x: &(u8, u8, u8)| x.0 == 2 && x.2 == 1);
    }
    // contains() of every view agrees with its own enumeration (and hence with filtering the store)
    {
        let all_triples: Vec<(u8, u8, u8)> = vec![(1, 1, 1), (1, 1, 2), (2, 1, 1), (2, 1, 2), (1, 2, 1)];
        for tr in &all_triples {
            let wu = set.iter().any(|q| (q.0, q.1, q.2) == *tr);
            let gu = d.union_graph().contains(t(tr.0), t(tr.1), t(tr.2)).unwrap();
            if gu != wu { fail("union_graph().contains()", qs, format!("{} {:?}: got {} want {}", name, tr, gu, wu)); }
            for gi in 0..3u8 {
                let wg = set.iter().any(|q| (q.0, q.1, q.2) == *tr && q.3 == gi);
                let gg = DatasetGraph::new(&d, g(gi)).contains(t(tr.0), t(tr.1), t(tr.2)).unwrap();
                if gg != wg { fail("graph(g).contains()", qs, format!("{} g={} {:?}: got {} want {}", name, gi, tr, gg, wg)); }
                let gg0 = g(gi);
                for (sel, selname, accept) in [
                    (vec![None, gg0.as_ref()], "[default, g]", Box::new(move |x: u8| x == 0 || x == gi) as Box<dyn Fn(u8) -> bool>),
                    (vec![None], "[default]", Box::new(|x: u8| x == 0)),
                    (vec![gg0.as_ref()], "[g]", Box::new(move |x: u8| x == gi)),
                ] {
                    let wp = set.iter().any(|q| (q.0, q.1, q.2) == *tr && accept(q.3));
                    let v = PartialUnionGraph::new(&d, &sel[..]);
                    let gp = v.contains(t(tr.0), t(tr.1), t(tr.2)).unwrap();
                    let ge = v.triples().any(|x| { let x = x.unwrap(); (num(&x.s()), num(&x.p()), num(&x.o())) == *tr });
                    if gp != wp || ge != wp { fail("partial_union_graph(sel).contains()", qs, format!("{} sel={} g={} {:?}: contains {} enumeration {} want {}", name, selname, gi, tr, gp, ge, wp)); }
                }
            }
        }
    }
    // projections of the union graph are those of its triples (graph names are not terms of the union graph)
    {
        let want_iris: BTreeSet<u8> = set.iter().flat_map(|q| [q.0, q.1, q.2]).collect();
        let got_iris: BTreeSet<u8> = d.union_graph().iris().map(|x| num(&x.unwrap())).collect();
        if got_iris != want_iris { fail("union_graph().iris()", qs, format!("{} got {:?} want {:?}", name, got_iris, want_iris)); }
        let want_s: BTreeSet<u8> = set.iter().map(|q| q.0).collect();
        let got_s: BTreeSet<u8> = d.union_graph().subjects().map(|x| num(&x.unwrap())).collect();
        if got_s != want_s { fail("union_graph().subjects()", qs, format!("{} got {:?} want {:?}", name, got_s, want_s)); }
        let want_o: BTreeSet<u8> = set.iter().map(|q| q.2).collect();
        let got_o: BTreeSet<u8> = d.union_graph().objects().map(|x| num(&x.unwrap())).collect();
        if got_o != want_o { fail("union_graph().objects()", qs, format!("{} got {:?} want {:?}", name, got_o, want_o)); }
    }
    for gi in 0..3u8 {
        let want = trip(&mut set.iter().filter(|q| q.3 == gi).map(|q| (q.0, q.1, q.2)));
        let got = trip(&mut DatasetGraph::new(&d, g(gi)).triples().map(|x| { let x = x.unwrap(); (num(&x.s()), num(&x.p()), num(&x.o())) }));
        if got != want { fail("graph(g).triples()", qs, format!("{} g={} got {:?} want {:?}", name, gi, got, want)); }
        let want1 = trip(&mut set.iter().filter(|q| q.3 == gi && q.0 == 1).map(|q| (q.0, q.1, q.2)));
        let got1 = trip(&mut DatasetGraph::new(&d, g(gi)).triples_matching([t(1)], Any, Any).map(|x| { let x = x.unwrap(); (num(&x.s()), num(&x.p()), num(&x.o())) }));
        if got1 != want1 { fail("graph(g).triples_matching([1],Any,Any)", qs, format!("{} g={} got {:?} want {:?}", name, gi, got1, want1)); }
        // partial union of {default, gi}
        let gg = g(gi); let sel = [None, gg.as_ref()];
        let want2 = trip(&mut set.iter().filter(|q| q.3 == 0 || q.3 == gi).map(|q| (q.0, q.1, q.2)));
        let got2 = trip(&mut PartialUnionGraph::new(&d, sel).triples().map(|x| { let x = x.unwrap(); (num(&x.s()), num(&x.p()), num(&x.o())) }));
        if got2 != want2 { fail("partial_union_graph([default,g]).triples()", qs, format!("{} g={} got {:?} want {:?}", name, gi, got2, want2)); }
        // mutation through the view == direct mutation
        let mut d1 = D::default(); let mut d2 = D::default();
        for q in qs { d1.insert(t(q.0), t(q.1), t(q.2), g(q.3)).unwrap(); d2.insert(t(q.0), t(q.1), t(q.2), g(q.3)).unwrap(); }
        for (ins, s) in [(true, 2u8), (false, 1u8)] {
            let r1 = if ins { DatasetGraph::new(&mut d1, g(gi)).insert(t(s), t(1), t(2)).unwrap() } else { DatasetGraph::new(&mut d1, g(gi)).remove(t(s), t(1), t(2)).unwrap() };
            let r2 = if ins { d2.insert(t(s), t(1), t(2), g(gi)).unwrap() } else { d2.remove(t(s), t(1), t(2), g(gi)).unwrap() };
            let c1: BTreeSet<Q> = d1.quads().map(|x| { let x = x.unwrap(); (num(&x.s()), num(&x.p()), num(&x.o()), x.g().map(|y| num(&y) - 10).unwrap_or(0)) }).collect();
            let c2: BTreeSet<Q> = d2.quads().map(|x| { let x = x.unwrap(); (num(&x.s()), num(&x.p()), num(&x.o()), x.g().map(|y| num(&y) - 10).unwrap_or(0)) }).collect();
            if r1 != r2 || c1 != c2 { fail("mutation through graph_mut(g)", qs, format!("{} g={} insert={} flag {} vs {} content {:?} vs {:?}", name, gi, ins, r1, r2, c1, c2)); }
        }
        // pattern-based bulk mutations through the view: only the viewed graph changes, the count is the number of
        // triples of that graph really removed
        for retain in [false, true] {
            let mut d3 = D::default();
            for q in qs { d3.insert(t(q.0), t(q.1), t(q.2), g(q.3)).unwrap(); }
            let n = { let mut v = DatasetGraph::new(&mut d3, g(gi)); if retain { v.retain_matching([t(1)], Any, Any).unwrap(); 0 } else { v.remove_matching([t(1)], Any, Any).unwrap() } };
            let want: BTreeSet<Q> = set.iter().cloned().filter(|q| q.3 != gi || ((q.0 == 1) == retain)).collect();
            let got: BTreeSet<Q> = d3.quads().map(|x| { let x = x.unwrap(); (num(&x.s()), num(&x.p()), num(&x.o()), x.g().map(|y| num(&y) - 10).unwrap_or(0)) }).collect();
            let removed = set.len() - want.len();
            if got != want || (!retain && n != removed) {
                fail(if retain { "retain_matching([1],Any,Any) through graph_mut(g)" } else { "remove_matching([1],Any,Any) through graph_mut(g)" }, qs, format!("{} g={} store afterwards {:?} expected {:?} (count {} expected {})", name, gi, got, want, n, removed));
            }
        }
    }
}

fn check_graph_as_dataset() {
    use sophia_api::dataset::adapter::GraphAsDataset;
    use sophia_inmem::graph::FastGraph;
    // mutations through the graph-as-dataset view vs the same mutations on the graph
    for hist in [[true, false], [true, true], [false, false], [false, true]] {
        let mut g1 = FastGraph::new();
        let mut g2 = FastGraph::new();
        g1.insert(t(1), t(1), t(2)).unwrap();
        g2.insert(t(1), t(1), t(2)).unwrap();
        for (k, ins) in hist.iter().enumerate() {
            let s = 1 + (k as u8 % 2);
            let r1 = { let mut v = GraphAsDataset::new(&mut g1); if *ins { v.insert(t(s), t(1), t(2), None::<T>).unwrap() } else { v.remove(t(s), t(1), t(2), None::<T>).unwrap() } };
            let r2 = if *ins { g2.insert(t(s), t(1), t(2)).unwrap() } else { g2.remove(t(s), t(1), t(2)).unwrap() };
            let c1: BTreeSet<(u8, u8, u8)> = g1.triples().map(|x| { let x = x.unwrap(); (num(&x.s()), num(&x.p()), num(&x.o())) }).collect();
            let c2: BTreeSet<(u8, u8, u8)> = g2.triples().map(|x| { let x = x.unwrap(); (num(&x.s()), num(&x.p()), num(&x.o())) }).collect();
            if r1 != r2 || c1 != c2 {
                println!("{{\"mismatch\":\"mutation through GraphAsDataset differs from the direct one\",\"history\":\"{:?} (true=insert) step {}\",\"detail\":\"flag {} vs {}, content {:?} vs {:?}\"}}", hist, k, r1, r2, c1, c2);
                std::process::exit(1);
            }
        }
    }
}

/// term enumerations of the graph-as-dataset view == those computed from its quads (atoms, through quoted triples)
fn check_graph_as_dataset_enumerations() {
    use sophia_api::dataset::adapter::GraphAsDataset;
    use sophia_api::term::TermKind;
    fn lit(x: &str) -> T { SimpleTerm::LiteralDatatype(x.to_string().into(), IriRef::new_unchecked("x:dt".into())) }
    fn bn(x: &str) -> T { SimpleTerm::BlankNode(sophia_api::term::BnodeId::new_unchecked(x.to_string().into())) }
    fn qt(s: T, p: T, o: T) -> T { SimpleTerm::Triple(Box::new([s, p, o])) }
    fn atoms(x: &T, out: &mut Vec<T>) { if let SimpleTerm::Triple(b) = x { for y in b.iter() { atoms(y, out) } } else { out.push(x.clone()) } }
    let shapes: Vec<(&str, Vec<[T; 3]>)> = vec![
        ("plain", vec![[t(1), t(2), lit("a")], [bn("b"), t(2), t(3)]]),
        ("literal nested in a quoted subject", vec![[qt(t(1), t(2), lit("n")), t(2), t(3)]]),
        ("literal / bnode nested in a quoted object", vec![[t(1), t(2), qt(bn("c"), t(2), lit("m"))]]),
        ("generalized: literal subject, bnode predicate", vec![[lit("g"), bn("p"), t(3)]]),
    ];
    for (name, g) in shapes {
        let mut all = vec![];
        for tr in &g { for x in tr { atoms(x, &mut all) } }
        let v = GraphAsDataset::new(&g);
        let want = |k: TermKind| -> BTreeSet<String> { all.iter().filter(|x| x.kind() == k).map(|x| format!("{:?}", x)).collect() };
        let checks: Vec<(&str, BTreeSet<String>, BTreeSet<String>)> = vec![
            ("literals()", v.literals().map(|x| format!("{:?}", x.unwrap().into_term::<T>())).collect(), want(TermKind::Literal)),
            ("iris()", v.iris().map(|x| format!("{:?}", x.unwrap().into_term::<T>())).collect(), want(TermKind::Iri)),
            ("blank_nodes()", v.blank_nodes().map(|x| format!("{:?}", x.unwrap().into_term::<T>())).collect(), want(TermKind::BlankNode)),
            ("subjects()", v.subjects().map(|x| format!("{:?}", x.unwrap().into_term::<T>())).collect(), g.iter().map(|tr| format!("{:?}", tr[0])).collect()),
            ("predicates()", v.predicates().map(|x| format!("{:?}", x.unwrap().into_term::<T>())).collect(), g.iter().map(|tr| format!("{:?}", tr[1])).collect()),
            ("objects()", v.objects().map(|x| format!("{:?}", x.unwrap().into_term::<T>())).collect(), g.iter().map(|tr| format!("{:?}", tr[2])).collect()),
        ];
        for (what, got, want) in checks {
            if got != want {
                println!("{{\"mismatch\":\"GraphAsDataset::{} differs from the terms of its quads\",\"graph\":{:?},\"detail\":{:?}}}", what, name, format!("got {:?} want {:?}", got, want));
                std::process::exit(1);
            }
        }
        if v.graph_names().next().is_some() { println!("{{\"mismatch\":\"GraphAsDataset::graph_names() not empty\",\"graph\":{:?}}}", name); std::process::exit(1); }
    }
}

/// read paths of the graph-as-dataset view over real graphs: every triple is a quad of the default graph and of no other
fn check_graph_as_dataset_reads() {
    use sophia_api::dataset::adapter::GraphAsDataset;
    use sophia_api::term::matcher::Not;
    use sophia_inmem::graph::FastGraph;
    let all: Vec<(u8, u8, u8)> = vec![(1, 1, 1), (1, 1, 2), (2, 1, 1), (2, 2, 2)];
    for mask in 0..16u32 {
        let trs: Vec<(u8, u8, u8)> = all.iter().enumerate().filter(|(i, _)| mask & (1 << i) != 0).map(|(_, x)| *x).collect();
        let want: BTreeSet<(u8, u8, u8)> = trs.iter().cloned().collect();
        macro_rules! on { ($g:expr, $name:expr) => {{
            let g = $g;
            let v = GraphAsDataset::new(&g);
            let qd = |it: &mut dyn Iterator<Item = ((u8, u8, u8), bool)>| -> (BTreeSet<(u8, u8, u8)>, bool, usize) { let mut s = BTreeSet::new(); let mut all_default = true; let mut n = 0; for (t, d) in it { s.insert(t); all_default &= d; n += 1; } (s, all_default, n) };
            macro_rules! q { ($what:expr, $it:expr, $expect:expr) => {{
                let (got, all_default, n) = qd(&mut $it.map(|x| { let x = x.unwrap(); ((num(&x.s()), num(&x.p()), num(&x.o())), x.g().is_none()) }));
                let exp: BTreeSet<(u8, u8, u8)> = $expect;
                if got != exp || !all_default || n != exp.len() { println!("{{\"mismatch\":\"GraphAsDataset::{} over {} differs from the graph's triples in the default graph\",\"graph\":\"{:?}\",\"detail\":\"got {:?} (all in default graph: {}, {} items) expected {:?}\"}}", $what, $name, trs, got, all_default, n, exp); std::process::exit(1); }
            }}}
            q!("quads()", v.quads(), want.clone());
            q!("quads_matching(*,*,*,Any)", v.quads_matching(Any, Any, Any, Any), want.clone());
            q!("quads_matching(*,*,*,[default])", v.quads_matching(Any, Any, Any, [None::<T>]), want.clone());
            q!("quads_matching(*,*,*,[g])", v.quads_matching(Any, Any, Any, [Some(t(11))]), BTreeSet::new());
            q!("quads_matching(*,*,*,[g, g2])", v.quads_matching(Any, Any, Any, [Some(t(11)), Some(t(12))]), BTreeSet::new());
            q!("quads_matching(*,*,*,[g, default])", v.quads_matching(Any, Any, Any, [Some(t(11)), None]), want.clone());
            q!("quads_matching(*,*,*,Not([default]))", v.quads_matching(Any, Any, Any, Not([None::<T>])), BTreeSet::new());
            q!("quads_matching(*,*,*,Not([g]))", v.quads_matching(Any, Any, Any, Not([Some(t(11))])), want.clone());
            q!("quads_matching(*,*,*,closure is_none)", v.quads_matching(Any, Any, Any, |g: GraphName<SimpleTerm>| g.is_none()), want.clone());
            q!("quads_matching(*,*,*,closure is_some)", v.quads_matching(Any, Any, Any, |g: GraphName<SimpleTerm>| g.is_some()), BTreeSet::new());
            q!("quads_matching([1],*,[2],[default])", v.quads_matching([t(1)], Any, [t(2)], [None::<T>]), want.iter().cloned().filter(|x| x.0 == 1 && x.2 == 2).collect());
            for x in &all {
                let c0 = v.contains(t(x.0), t(x.1), t(x.2), None::<T>).unwrap();
                let c1 = v.contains(t(x.0), t(x.1), t(x.2), Some(t(11))).unwrap();
                if c0 != want.contains(x) || c1 { println!("{{\"mismatch\":\"GraphAsDataset::contains over {}\",\"graph\":\"{:?}\",\"detail\":\"{:?}: in the default graph {} (expected {}), in a named graph {} (expected false)\"}}", $name, trs, x, c0, want.contains(x), c1); std::process::exit(1); }
            }
            if v.graph_names().next().is_some() { println!("{{\"mismatch\":\"GraphAsDataset::graph_names not empty over {}\"}}", $name); std::process::exit(1); }
        }}}
        on!({ let mut g = FastGraph::new(); for x in &trs { g.insert(t(x.0), t(x.1), t(x.2)).unwrap(); } g }, "FastGraph");
        on!({ let g: Vec<[T; 3]> = trs.iter().map(|x| [t(x.0), t(x.1), t(x.2)]).collect(); g }, "Vec<[T;3]>");
    }
}

fn main() {
    check_graph_as_dataset();
    check_graph_as_dataset_reads();
    check_graph_as_dataset_enumerations();
    let mut all: Vec<Q> = vec![];
    for s in [1u8, 2] { for o in [1u8, 2] { for gi in 0..3u8 { all.push((s, 1, o, gi)); } } }
    let mut n = 0u64;
    // distinct quads only (a Vec-backed dataset is a list and would keep duplicates)
    for a in 0..all.len() { for b in a + 1..all.len() { for c in b + 1..all.len() {
        for qs in [&[all[a]][..], &[all[a], all[b]][..], &[all[a], all[b], all[c]][..]] {
            check::<FastDataset>("FastDataset", qs);
            check::<Vec<Spog<T>>>("Vec<Spog>", qs);
            n += 1;
        }
    }}}
    println!("{{\"ok\":true,\"datasets\":{}}}", n);
}
