//! Replay for C16 on the real crates, unoptimised build, 2 MiB thread:
//!   site = spo | bc | gspo | bcd | cd : a pattern query whose matcher rejects N rows in a row
//!   site = esc                        : one literal with N escaped characters through the N-Triples serializer
//! A stack overflow aborts the process (SIGABRT/SIGSEGV): the driver reports that as the reproduced violation.
use sophia_api::dataset::{Dataset, MutableDataset};
use sophia_api::graph::{Graph, MutableGraph};
use sophia_api::term::matcher::Any;
use sophia_api::term::{IriRef, SimpleTerm};
use sophia_inmem::dataset::FastDataset;
use sophia_inmem::graph::{FastGraph, LightGraph};
use sophia_turtle::serializer::nt::write_term;

fn iri(s: String) -> SimpleTerm<'static> { SimpleTerm::Iri(IriRef::new_unchecked(s.into())) }

fn shapes(n: usize) -> Vec<Vec<[SimpleTerm<'static>; 3]>> {
    // three data shapes: distinct subjects+objects, distinct predicates, distinct subjects only
    vec![
        (0..n).map(|i| [iri(format!("x:s{}", i)), iri("x:p".into()), iri(format!("x:o{}", i))]).collect(),
        (0..n).map(|i| [iri("x:s".into()), iri(format!("x:p{}", i)), iri("x:o".into())]).collect(),
        (0..n).map(|i| [iri(format!("x:s{}", i)), iri("x:p".into()), iri("x:o".into())]).collect(),
    ]
}

fn run(site: &str, n: usize) -> usize {
    let reject = |t: SimpleTerm| -> bool { let _ = t; false };
    let mut total = 0;
    match site {
        "spo" | "bc" => {
            for data in shapes(n) {
                let (s0, p0, o0) = (data[0][0].clone(), data[0][1].clone(), data[0][2].clone());
                let mut l = LightGraph::new();
                let mut f = FastGraph::new();
                for t in &data { l.insert(&t[0], &t[1], &t[2]).unwrap(); f.insert(&t[0], &t[1], &t[2]).unwrap(); }
                macro_rules! q { ($g:expr) => {{
                    total += $g.triples_matching(reject, Any, Any).count();
                    total += $g.triples_matching(Any, reject, Any).count();
                    total += $g.triples_matching(Any, Any, reject).count();
                    total += $g.triples_matching([s0.clone()], reject, Any).count();
                    total += $g.triples_matching([s0.clone()], Any, reject).count();
                    total += $g.triples_matching(reject, [p0.clone()], Any).count();
                    total += $g.triples_matching(Any, [p0.clone()], reject).count();
                    total += $g.triples_matching(reject, Any, [o0.clone()]).count();
                    total += $g.triples_matching(Any, reject, [o0.clone()]).count();
                }}}
                q!(l);
                q!(f);
            }
            total
        }
        "gspo" | "bcd" | "cd" => {
            for data in shapes(n) {
                let (s0, p0, o0) = (data[0][0].clone(), data[0][1].clone(), data[0][2].clone());
                let mut d = FastDataset::new();
                for t in &data { d.insert(&t[0], &t[1], &t[2], None::<SimpleTerm>).unwrap(); }
                let dg = [None::<SimpleTerm>];
                total += d.quads_matching(reject, Any, Any, Any).count();
                total += d.quads_matching(Any, reject, Any, Any).count();
                total += d.quads_matching(Any, Any, reject, Any).count();
                total += d.quads_matching([s0.clone()], reject, Any, Any).count();
                total += d.quads_matching([s0.clone()], Any, reject, Any).count();
                total += d.quads_matching(reject, [p0.clone()], Any, Any).count();
                total += d.quads_matching(Any, [p0.clone()], reject, Any).count();
                total += d.quads_matching(reject, Any, [o0.clone()], Any).count();
                total += d.quads_matching(Any, reject, [o0.clone()], Any).count();
                total += d.quads_matching(reject, Any, Any, dg.clone()).count();
                total += d.quads_matching(Any, reject, Any, dg.clone()).count();
                total += d.quads_matching(Any, Any, reject, dg.clone()).count();
                total += d.quads_matching([s0.clone()], [p0.clone()], reject, Any).count();
                total += d.quads_matching([s0.clone()], reject, [o0.clone()], Any).count();
                total += d.quads_matching(reject, [p0.clone()], [o0.clone()], Any).count();
                total += d.quads_matching([s0.clone()], reject, Any, dg.clone()).count();
                total += d.quads_matching(reject, [p0.clone()], Any, dg.clone()).count();
                total += d.quads_matching(Any, reject, [o0.clone()], dg.clone()).count();
            }
            total
        }
        "esc" => {
            for ch in ['\n', '\r', '"', '\\'] {
                let lex: String = std::iter::repeat(ch).take(n).collect();
                let t = SimpleTerm::LiteralDatatype(lex.into(), IriRef::new_unchecked("x:d".into()));
                let mut w = Vec::new();
                write_term(&mut w, &t).unwrap();
                total += w.len();
            }
            total
        }
        _ => panic!("unknown site"),
    }
}

fn main() {
    let site = std::env::args().nth(1).unwrap();
    let n: usize = std::env::args().nth(2).and_then(|s| s.parse().ok()).unwrap_or(200_000);
    let s2 = site.clone();
    let h = std::thread::Builder::new().stack_size(2 * 1024 * 1024).spawn(move || run(&s2, n)).unwrap();
    let r = h.join().unwrap();
    println!("{{\"ok\":true,\"site\":{:?},\"n\":{},\"result\":{}}}", site, n, r);
}
