//! Replay for C16 on the real crates, unoptimised build, 2 MiB thread:
//!   site = spo | bc | gspo | bcd | cd : a pattern query whose matcher rejects N rows in a row
//!   site = esc                        : one literal with N escaped characters through the N-Triples serializer
//! A stack overflow aborts the process (SIGABRT/SIGSEGV): the driver reports that as the reproduced violation.
use sophia_api::dataset::{Dataset, MutableDataset};
use sophia_api::graph::{Graph, MutableGraph};
use sophia_api::term::matcher::Any;
use sophia_api::term::{IriRef, SimpleTerm};
use sophia_inmem::dataset::FastDataset;
use sophia_inmem::graph::{FastGraph, LightGraph};
use sophia_turtle::serializer::nt::write_term;

fn iri(s: String) -> SimpleTerm<'static> { SimpleTerm::Iri(IriRef::new_unchecked(s.into())) }

fn run(site: &str, n: usize) -> usize {
    let reject = |t: SimpleTerm| -> bool { let _ = t; false };
    match site {
        "spo" => {
            let mut g = LightGraph::new();
            for i in 0..n { g.insert(iri(format!("x:s{}", i)), iri("x:p".into()), iri("x:o".into())).unwrap(); }
            g.triples_matching(reject, Any, Any).count()
        }
        "bc" => {
            let mut g = FastGraph::new();
            for i in 0..n { g.insert(iri("x:s".into()), iri(format!("x:p{}", i)), iri("x:o".into())).unwrap(); }
            g.triples_matching([iri("x:s".into())], reject, Any).count()
        }
        "gspo" => {
            let mut d = FastDataset::new();
            for i in 0..n { d.insert(iri(format!("x:s{}", i)), iri("x:p".into()), iri("x:o".into()), None::<SimpleTerm>).unwrap(); }
            d.quads_matching(reject, Any, Any, Any).count()
        }
        "bcd" => {
            let mut d = FastDataset::new();
            for i in 0..n { d.insert(iri("x:s".into()), iri(format!("x:p{}", i)), iri("x:o".into()), None::<SimpleTerm>).unwrap(); }
            d.quads_matching([iri("x:s".into())], reject, Any, Any).count()
        }
        "cd" => {
            let mut d = FastDataset::new();
            for i in 0..n { d.insert(iri("x:s".into()), iri("x:p".into()), iri(format!("x:o{}", i)), None::<SimpleTerm>).unwrap(); }
            d.quads_matching([iri("x:s".into())], [iri("x:p".into())], reject, Any).count()
        }
        "esc" => {
            let lex: String = std::iter::repeat('\n').take(n).collect();
            let t = SimpleTerm::LiteralDatatype(lex.into(), IriRef::new_unchecked("x:d".into()));
            let mut w = Vec::new();
            write_term(&mut w, &t).unwrap();
            w.len()
        }
        _ => panic!("unknown site"),
    }
}

fn main() {
    let site = std::env::args().nth(1).unwrap();
    let n: usize = std::env::args().nth(2).and_then(|s| s.parse().ok()).unwrap_or(300_000);
    let s2 = site.clone();
    let h = std::thread::Builder::new().stack_size(2 * 1024 * 1024).spawn(move || run(&s2, n)).unwrap();
    let r = h.join().unwrap();
    println!("{{\"ok\":true,\"site\":{:?},\"n\":{},\"result\":{}}}", site, n, r);
}
