//! An independent, deliberately plain transcription of W3C RDFC-1.0 (https://www.w3.org/TR/rdf-canon/, sections
//! 4.4.3 Canonicalization, 4.6.3 Hash First Degree Quads, 4.7.3 Hash Related Blank Node, 4.8.3 Hash N-Degree Quads,
//! 4.5.2 Issue Identifier) used as the reference against which sophia_c14n's output is compared byte for byte.
//! It shares no code with sophia_c14n (own term type, own N-Quads writer for the escape-free terms used here,
//! sha2 called directly).  No pruning of permutations, no complexity limits.
use sha2::{Digest, Sha256, Sha384};
use std::collections::BTreeMap;

#[derive(Clone, Debug, PartialEq, Eq, PartialOrd, Ord, Hash)]
pub enum OTerm { Iri(String), Bnode(String), Lit(String) }
#[derive(Clone, Debug, PartialEq, Eq, PartialOrd, Ord, Hash)]
pub struct OQuad { pub s: OTerm, pub p: OTerm, pub o: OTerm, pub g: Option<OTerm> }

#[derive(Clone, Copy, PartialEq)]
pub enum HashFn { S256, S384 }
fn hash(h: HashFn, data: &str) -> String {
    let bytes: Vec<u8> = match h { HashFn::S256 => Sha256::digest(data.as_bytes()).to_vec(), HashFn::S384 => Sha384::digest(data.as_bytes()).to_vec() };
    bytes.iter().map(|b| format!("{:02x}", b)).collect()
}

#[derive(Clone, Debug)]
pub struct Issuer { prefix: String, issued: Vec<(String, String)> }
impl Issuer {
    fn new(prefix: &str) -> Self { Issuer { prefix: prefix.to_string(), issued: vec![] } }
    fn get(&self, id: &str) -> Option<String> { self.issued.iter().find(|(k, _)| k == id).map(|(_, v)| v.clone()) }
    fn issue(&mut self, id: &str) -> String {
        if let Some(v) = self.get(id) { return v; }
        let v = format!("{}{}", self.prefix, self.issued.len());
        self.issued.push((id.to_string(), v.clone()));
        v
    }
}

pub fn nq_term(t: &OTerm, bn: &dyn Fn(&str) -> String) -> String {
    match t {
        OTerm::Iri(i) => format!("<{}>", i),
        OTerm::Bnode(b) => format!("_:{}", bn(b)),
        OTerm::Lit(l) => {
            // canonical N-Quads (RDFC-1.0 section 5.1 / RDF N-Quads canonical form): ECHAR for BS HT LF FF CR " \,
            // UCHAR \uXXXX (upper-case hex) for the other characters of U+0000-U+0007, U+000B, U+000E-U+001F and U+007F,
            // every other character written natively
            let mut s = String::from("\"");
            for c in l.chars() {
                match c {
                    '\u{8}' => s.push_str("\\b"), '\t' => s.push_str("\\t"), '\n' => s.push_str("\\n"), '\u{c}' => s.push_str("\\f"), '\r' => s.push_str("\\r"),
                    '"' => s.push_str("\\\""), '\\' => s.push_str("\\\\"),
                    c if (c as u32) <= 0x1f || c as u32 == 0x7f => s.push_str(&format!("\\u{:04X}", c as u32)),
                    c => s.push(c),
                }
            }
            s.push('"');
            s
        }
    }
}
fn nq_line(q: &OQuad, bn: &dyn Fn(&str) -> String) -> String {
    let mut s = format!("{} {} {}", nq_term(&q.s, bn), nq_term(&q.p, bn), nq_term(&q.o, bn));
    if let Some(g) = &q.g { s.push(' '); s.push_str(&nq_term(g, bn)); }
    s.push_str(" .\n");
    s
}

struct State<'a> { h: HashFn, quads: &'a [OQuad], b2q: BTreeMap<String, Vec<usize>>, canon: Issuer, max_list: std::cell::Cell<usize>, max_depth: std::cell::Cell<usize> }

fn components(q: &OQuad) -> Vec<(&'static str, &OTerm)> {
    let mut v = vec![("s", &q.s), ("o", &q.o)];
    if let Some(g) = &q.g { v.push(("g", g)); }
    v
}

impl<'a> State<'a> {
    fn first_degree(&self, reference: &str) -> String {
        let mut lines: Vec<String> = self.b2q[reference].iter().map(|i| nq_line(&self.quads[*i], &|b| if b == reference { "a".into() } else { "z".into() })).collect();
        lines.sort();
        hash(self.h, &lines.concat())
    }
    fn related(&self, related: &str, quad: &OQuad, issuer: &Issuer, position: &str) -> String {
        let mut input = position.to_string();
        if position != "g" { if let OTerm::Iri(p) = &quad.p { input.push('<'); input.push_str(p); input.push('>'); } else { panic!("non-IRI predicate") } }
        if let Some(c) = self.canon.get(related) { input.push_str("_:"); input.push_str(&c); }
        else if let Some(t) = issuer.get(related) { input.push_str("_:"); input.push_str(&t); }
        else { input.push_str(&self.first_degree(related)); }
        hash(self.h, &input)
    }
    fn n_degree(&self, identifier: &str, issuer: &Issuer, depth: usize) -> (String, Issuer) {
        if depth > self.max_depth.get() { self.max_depth.set(depth); }
        let mut issuer = issuer.clone();
        let mut hn: BTreeMap<String, Vec<String>> = BTreeMap::new();
        for qi in &self.b2q[identifier] {
            let quad = &self.quads[*qi];
            for (pos, t) in components(quad) {
                if let OTerm::Bnode(b) = t { if b != identifier {
                    let h = self.related(b, quad, &issuer, pos);
                    hn.entry(h).or_default().push(b.clone());
                }}
            }
        }
        let mut data = String::new();
        for (related_hash, list) in &hn {
            data.push_str(related_hash);
            if list.len() > self.max_list.get() { self.max_list.set(list.len()); }
            let mut chosen_path = String::new();
            let mut chosen_issuer: Option<Issuer> = None;
            for p in permutations(list) {
                let mut copy = issuer.clone();
                let mut path = String::new();
                let mut recursion: Vec<String> = vec![];
                for related in &p {
                    if let Some(c) = self.canon.get(related) { path.push_str("_:"); path.push_str(&c); }
                    else {
                        if copy.get(related).is_none() { recursion.push(related.clone()); }
                        let id = copy.issue(related);
                        path.push_str("_:"); path.push_str(&id);
                    }
                }
                for related in &recursion {
                    let (rh, ri) = self.n_degree(related, &copy, depth + 1);
                    let id = copy.issue(related);
                    path.push_str("_:"); path.push_str(&id);
                    path.push('<'); path.push_str(&rh); path.push('>');
                    copy = ri;
                }
                if chosen_path.is_empty() || path < chosen_path { chosen_path = path; chosen_issuer = Some(copy); }
            }
            data.push_str(&chosen_path);
            issuer = chosen_issuer.unwrap();
        }
        (hash(self.h, &data), issuer)
    }
}

fn permutations(list: &[String]) -> Vec<Vec<String>> {
    if list.len() <= 1 { return vec![list.to_vec()]; }
    let mut out = vec![];
    for i in 0..list.len() {
        let mut rest = list.to_vec();
        let x = rest.remove(i);
        for mut p in permutations(&rest) { p.insert(0, x.clone()); out.push(p); }
    }
    out
}

/// canonical N-Quads document and the issued identifier map (original label -> c14nN)
/// (canonical N-Quads, identifier map, longest list of related blank nodes permuted, deepest recursion, number of blank nodes)
pub fn canonicalize(h: HashFn, quads: &[OQuad]) -> (String, Vec<(String, String)>, usize, usize, usize) {
    let mut st = State { h, quads, b2q: BTreeMap::new(), canon: Issuer::new("c14n"), max_list: Default::default(), max_depth: Default::default() };
    for (i, q) in quads.iter().enumerate() {
        for (_, t) in components(q) { if let OTerm::Bnode(b) = t { let e = st.b2q.entry(b.clone()).or_default(); if !e.contains(&i) { e.push(i); } } }
    }
    let mut h2b: BTreeMap<String, Vec<String>> = BTreeMap::new();
    for n in st.b2q.keys() { h2b.entry(st.first_degree(n)).or_default().push(n.clone()); }
    let mut remaining: Vec<(String, Vec<String>)> = vec![];
    for (hsh, list) in &h2b { if list.len() > 1 { remaining.push((hsh.clone(), list.clone())); } else { st.canon.issue(&list[0]); } }
    for (_, list) in &remaining {
        let mut hash_path_list: Vec<(String, Issuer)> = vec![];
        for n in list {
            if st.canon.get(n).is_some() { continue; }
            let mut tmp = Issuer::new("b");
            tmp.issue(n);
            hash_path_list.push(st.n_degree(n, &tmp, 0));
        }
        hash_path_list.sort_by(|a, b| a.0.cmp(&b.0));
        for (_, iss) in &hash_path_list { for (orig, _) in &iss.issued { st.canon.issue(orig); } }
    }
    let canon = st.canon.clone();
    let mut lines: Vec<String> = quads.iter().map(|q| nq_line(q, &|b| canon.get(b).unwrap())).collect();
    lines.sort();
    lines.dedup();
    (lines.concat(), canon.issued.clone(), st.max_list.get(), st.max_depth.get(), st.b2q.len())
}
