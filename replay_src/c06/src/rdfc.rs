//! `rdfc` mode: sophia_c14n (normalize_with / relabel_with, SHA-256 and SHA-384, default limits) against the
//! independent transcription of RDFC-1.0 in oracle.rs, byte for byte, on
//!  A  every dataset of <= 3 quads (<= 2 in the quick run for quads with a blank graph name) over a universe of
//!     120 quads: subjects {_:b0,_:b1,_:b2,<x:a>} x predicates {<x:p>,<x:q>} x objects {_:b0,_:b1,_:b2,<x:a>,"l"}
//!     x graph names {default, <x:g>, _:b2};
//!  B  structured symmetric shapes that force Hash N-Degree Quads and its permutations: cycles, cliques, stars,
//!     two isomorphic components, chains of 2..5 blank nodes, each also replicated over two named graphs
//!     (the same pair of nodes linked by several quads) and with blank graph names.
//! Also: the identifier map returned by relabel_with is a bijection onto c14n0..c14n(n-1), equal to the oracle's
//! (when the dataset has no non-trivial automorphism the map is unique; otherwise only the document is compared),
//! and canonicalisation never fails within the default limits on these inputs.
use crate::oracle::{canonicalize, HashFn, OQuad, OTerm};
use sophia_api::quad::Spog;
use sophia_api::term::{BnodeId, IriRef, SimpleTerm};
use sophia_c14n::hash::{Sha256, Sha384};
use sophia_c14n::rdfc10::{normalize_with, relabel_with, DEFAULT_DEPTH_FACTOR, DEFAULT_PERMUTATION_LIMIT};
use std::collections::BTreeSet;
use sophia_api::quad::Quad;

type T = SimpleTerm<'static>;
fn conv(t: &OTerm) -> T {
    match t {
        OTerm::Iri(i) => SimpleTerm::Iri(IriRef::new_unchecked(i.clone().into())),
        OTerm::Bnode(b) => SimpleTerm::BlankNode(BnodeId::new_unchecked(b.clone().into())),
        OTerm::Lit(l) => SimpleTerm::LiteralDatatype(l.clone().into(), IriRef::new_unchecked("http://www.w3.org/2001/XMLSchema#string".into())),
    }
}
/// a quad ordered by its text: BTreeSet<OQ> is a SetDataset with a deterministic iteration order (driven by the labels)
#[derive(Clone, Debug)]
struct OQ(String, Spog<T>);
impl PartialEq for OQ { fn eq(&self, o: &Self) -> bool { self.0 == o.0 } }
impl Eq for OQ {}
impl PartialOrd for OQ { fn partial_cmp(&self, o: &Self) -> Option<std::cmp::Ordering> { Some(self.cmp(o)) } }
impl Ord for OQ { fn cmp(&self, o: &Self) -> std::cmp::Ordering { self.0.cmp(&o.0) } }
impl sophia_api::quad::Quad for OQ {
    type Term = T;
    fn s(&self) -> sophia_api::quad::QBorrowTerm<'_, Self> { self.1.s() }
    fn p(&self) -> sophia_api::quad::QBorrowTerm<'_, Self> { self.1.p() }
    fn o(&self) -> sophia_api::quad::QBorrowTerm<'_, Self> { self.1.o() }
    fn g(&self) -> sophia_api::term::GraphName<sophia_api::quad::QBorrowTerm<'_, Self>> { self.1.g() }
    fn to_spog(self) -> Spog<Self::Term> { self.1 }
}
fn dataset(qs: &[OQuad]) -> BTreeSet<OQ> { qs.iter().map(|q| OQ(line(q), ([conv(&q.s), conv(&q.p), conv(&q.o)], q.g.as_ref().map(conv)))).collect() }

fn b(i: usize) -> OTerm { OTerm::Bnode(format!("b{}", i)) }
fn iri(s: &str) -> OTerm { OTerm::Iri(s.to_string()) }

fn check(qs: &[OQuad], what: &str) -> u64 {
    let set: BTreeSet<OQuad> = qs.iter().cloned().collect();
    let qs: Vec<OQuad> = set.into_iter().collect();
    let d = dataset(&qs);
    for (h, name) in [(HashFn::S256, "SHA-256"), (HashFn::S384, "SHA-384")] {
        let (want, want_map, max_list, max_depth, n_bnodes) = canonicalize(h, &qs);
        let mut out = vec![];
        let r = match h {
            HashFn::S256 => normalize_with::<Sha256, _, _>(&d, &mut out, DEFAULT_DEPTH_FACTOR, DEFAULT_PERMUTATION_LIMIT).map_err(|e| e.to_string()),
            HashFn::S384 => normalize_with::<Sha384, _, _>(&d, &mut out, DEFAULT_DEPTH_FACTOR, DEFAULT_PERMUTATION_LIMIT).map_err(|e| e.to_string()),
        };
        if let Err(e) = &r {
            // an explicit complexity error is right only if the limit is really exceeded (as measured by the oracle run)
            let really = (e.contains("Too many permutations") && max_list > DEFAULT_PERMUTATION_LIMIT) || (e.contains("too many recursions") && max_depth as f32 > DEFAULT_DEPTH_FACTOR * n_bnodes as f32);
            if really { continue; }
        }
        if let Err(e) = r {
            println!("{{\"mismatch\":\"canonicalisation failed within the default limits\",\"hash\":{:?},\"case\":{:?},\"dataset\":{:?},\"error\":{:?}}}", name, what, fmt(&qs), e);
            std::process::exit(1);
        }
        let got = String::from_utf8(out).unwrap();
        if got != want {
            println!("{{\"mismatch\":\"canonical N-Quads differ from RDFC-1.0\",\"hash\":{:?},\"case\":{:?},\"dataset\":{:?},\"sophia\":{:?},\"rdfc10\":{:?}}}", name, what, fmt(&qs), got, want);
            std::process::exit(1);
        }
        // identifier map: a bijection onto c14n0..c14n(n-1); applying it gives the canonical document
        let m = match h {
            HashFn::S256 => relabel_with::<Sha256, _>(&d, DEFAULT_DEPTH_FACTOR, DEFAULT_PERMUTATION_LIMIT).map(|(_, m)| m).map_err(|e| e.to_string()),
            HashFn::S384 => relabel_with::<Sha384, _>(&d, DEFAULT_DEPTH_FACTOR, DEFAULT_PERMUTATION_LIMIT).map(|(_, m)| m).map_err(|e| e.to_string()),
        }.unwrap();
        let mut targets: Vec<String> = m.values().map(|v| v.as_str().to_string()).collect();
        targets.sort();
        let mut expect: Vec<String> = (0..want_map.len()).map(|i| format!("c14n{}", i)).collect();
        expect.sort();
        if targets != expect || m.len() != want_map.len() {
            println!("{{\"mismatch\":\"identifier map is not a bijection onto c14n0..c14n(n-1)\",\"hash\":{:?},\"case\":{:?},\"dataset\":{:?},\"map\":{:?}}}", name, what, fmt(&qs), m);
            std::process::exit(1);
        }
        let relabelled: Vec<OQuad> = qs.iter().map(|q| {
            let f = |t: &OTerm| match t { OTerm::Bnode(x) => OTerm::Bnode(m.get(x.as_str()).map(|v| v.as_str().to_string()).unwrap_or_else(|| "MISSING".into())), o => o.clone() };
            OQuad { s: f(&q.s), p: q.p.clone(), o: f(&q.o), g: q.g.as_ref().map(f) }
        }).collect();
        let mut lines: Vec<String> = relabelled.iter().map(line).collect();
        lines.sort();
        if lines.concat() != want {
            println!("{{\"mismatch\":\"applying the returned identifier map does not give the canonical document\",\"hash\":{:?},\"case\":{:?},\"dataset\":{:?},\"map\":{:?}}}", name, what, fmt(&qs), m);
            std::process::exit(1);
        }
    }
    2
}
fn t(x: &OTerm) -> String { crate::oracle::nq_term(x, &|b| b.to_string()) }
fn line(q: &OQuad) -> String { let mut s = format!("{} {} {}", t(&q.s), t(&q.p), t(&q.o)); if let Some(g) = &q.g { s.push(' '); s.push_str(&t(g)); } s.push_str(" .\n"); s }
fn fmt(qs: &[OQuad]) -> String { qs.iter().map(line).collect::<Vec<_>>().concat() }

pub fn main_rdfc(deep: bool) {
    let mut n = 0u64;
    // A: small exhaustive
    let subs = [b(0), b(1), b(2), iri("x:a")];
    let preds = [iri("x:p"), iri("x:q")];
    let objs = [b(0), b(1), b(2), iri("x:a"), OTerm::Lit("l".into())];
    let graphs = [None, Some(iri("x:g")), Some(b(2))];
    let mut uni: Vec<OQuad> = vec![];
    for s in &subs { for p in &preds { for o in &objs { for g in &graphs { uni.push(OQuad { s: s.clone(), p: p.clone(), o: o.clone(), g: g.clone() }); } } } }
    let has_b = |q: &OQuad| matches!(q.s, OTerm::Bnode(_)) || matches!(q.o, OTerm::Bnode(_)) || matches!(q.g, Some(OTerm::Bnode(_)));
    let uni: Vec<OQuad> = uni.into_iter().filter(|q| has_b(q)).collect();
    for i in 0..uni.len() {
        n += check(&[uni[i].clone()], "A1");
        for j in i + 1..uni.len() {
            n += check(&[uni[i].clone(), uni[j].clone()], "A2");
            for k in j + 1..uni.len() {
                // quick run: triples of quads only over the q-free half of the universe (predicate <x:p>)
                let all_p = |q: &OQuad| q.p == iri("x:p");
                if deep || (all_p(&uni[i]) && all_p(&uni[j]) && all_p(&uni[k])) {
                    n += check(&[uni[i].clone(), uni[j].clone(), uni[k].clone()], "A3");
                }
            }
        }
    }
    // B: structured shapes
    let p = iri("x:p");
    let edge = |a: usize, c: usize, g: Option<OTerm>| OQuad { s: b(a), p: iri("x:p"), o: b(c), g };
    for k in 2..=5usize {
        let cycle: Vec<(usize, usize)> = (0..k).map(|i| (i, (i + 1) % k)).collect();
        let clique: Vec<(usize, usize)> = (0..k).flat_map(|i| (0..k).filter(move |j| *j != i).map(move |j| (i, j))).collect();
        let star: Vec<(usize, usize)> = (1..k).map(|i| (0, i)).collect();
        let chain: Vec<(usize, usize)> = (0..k - 1).map(|i| (i, i + 1)).collect();
        let two: Vec<(usize, usize)> = (0..k).map(|i| (i, (i + 1) % k)).chain((0..k).map(|i| (k + i, k + (i + 1) % k))).collect();
        for (name, edges) in [("cycle", &cycle), ("clique", &clique), ("star", &star), ("chain", &chain), ("two-cycles", &two)] {
            if name == "clique" && k == 5 && !deep { continue; }
            if name == "two-cycles" && k > 3 && !deep { continue; }
            let plain: Vec<OQuad> = edges.iter().map(|(a, c)| edge(*a, *c, None)).collect();
            n += check(&plain, &format!("{}{}", name, k));
            let multi: Vec<OQuad> = edges.iter().flat_map(|(a, c)| [edge(*a, *c, Some(iri("x:g1"))), edge(*a, *c, Some(iri("x:g2")))]).collect();
            n += check(&multi, &format!("{}{} in two named graphs", name, k));
            let bg: Vec<OQuad> = edges.iter().map(|(a, c)| edge(*a, *c, Some(b(*a)))).collect();
            n += check(&bg, &format!("{}{} with the subject as graph name", name, k));
            let mixed: Vec<OQuad> = edges.iter().enumerate().map(|(i, (a, c))| OQuad { s: b(*a), p: if i == 0 { iri("x:q") } else { p.clone() }, o: b(*c), g: None }).collect();
            n += check(&mixed, &format!("{}{} with one distinguished edge", name, k));
        }
    }
    // several groups of blank nodes with equal first-degree hashes, linked across groups (k pairs a_i -> b_i, also
    // with a third layer, a second predicate, and edges back): step 5.3 must issue identifiers for every node the
    // recursion reached, whatever its group
    for k in 2..=4usize {
        let pairs: Vec<OQuad> = (0..k).map(|i| edge(10 + i, 20 + i, None)).collect();
        n += check(&pairs, &format!("{} disjoint pairs", k));
        let three: Vec<OQuad> = (0..k).flat_map(|i| [edge(10 + i, 20 + i, None), OQuad { s: b(20 + i), p: iri("x:q"), o: b(30 + i), g: None }]).collect();
        n += check(&three, &format!("{} disjoint paths of three", k));
        let back: Vec<OQuad> = (0..k).flat_map(|i| [edge(10 + i, 20 + i, None), OQuad { s: b(20 + i), p: iri("x:q"), o: b(10 + (i + 1) % k), g: None }]).collect();
        n += check(&back, &format!("{} pairs chained into a ring by a second predicate", k));
        let named: Vec<OQuad> = (0..k).map(|i| edge(10 + i, 20 + i, Some(b(30 + i)))).collect();
        n += check(&named, &format!("{} disjoint pairs, each in its own blank graph", k));
    }
    // literals whose canonical form needs (or must NOT use) escapes: they also enter the first-degree hashes
    for (i, txt) in ["\u{8}\t\n\u{c}\r\"\\", "\u{0}\u{1}\u{7}", "\u{b}\u{e}\u{1f}", "\u{7f}", "\u{80}", "\u{85}\u{90}\u{9f}", "\u{a0}\u{e9}\u{2028}", "\u{1f600}", " ", "a b"].iter().enumerate() {
        let d = vec![
            OQuad { s: b(1), p: iri("x:p"), o: OTerm::Lit(txt.to_string()), g: None },
            OQuad { s: b(2), p: iri("x:p"), o: OTerm::Lit(format!("{}x", txt)), g: None },
            OQuad { s: b(1), p: iri("x:q"), o: b(2), g: Some(iri("x:g")) },
        ];
        n += check(&d, &format!("literal with special characters #{}", i));
    }
    // clusters of more than 10 blank nodes that all go through Hash N-Degree Quads (temporary identifiers b10,
    // b11, ... sort differently as strings and as numbers): long cycles, two identical rdf:Lists
    for k in [11usize, 12, 13] {
        let cyc: Vec<OQuad> = (0..k).map(|i| edge(i, (i + 1) % k, None)).collect();
        n += check(&cyc, &format!("cycle{}", k));
    }
    {
        let first = iri("http://www.w3.org/1999/02/22-rdf-syntax-ns#first");
        let rest = iri("http://www.w3.org/1999/02/22-rdf-syntax-ns#rest");
        let nil = iri("http://www.w3.org/1999/02/22-rdf-syntax-ns#nil");
        for cells in [6usize, 12] {
            let mut d: Vec<OQuad> = vec![];
            for l in 0..2usize { for c in 0..cells {
                let me = b(100 * (l + 1) + c);
                d.push(OQuad { s: me.clone(), p: first.clone(), o: OTerm::Lit(format!("{}", c)), g: None });
                d.push(OQuad { s: me, p: rest.clone(), o: if c + 1 == cells { nil.clone() } else { b(100 * (l + 1) + c + 1) }, g: None });
            }}
            n += check(&d, &format!("two identical lists of {} cells", cells));
        }
    }
    // non-default limits: an explicit error is right exactly when the limit is exceeded (as measured by the oracle
    // run: deepest recursion vs depth_factor x number of blank nodes; longest permuted list vs permutation_limit)
    {
        let mut shapes: Vec<(String, Vec<OQuad>)> = vec![];
        for k in 3..=5usize {
            let cyc: Vec<OQuad> = (0..k).map(|i| edge(i, (i + 1) % k, None)).collect();
            shapes.push((format!("cycle{}", k), cyc.clone()));
            let mut with_unique = cyc.clone();
            for i in 0..k { with_unique.push(OQuad { s: b(50 + i), p: iri(&format!("x:q{}", i)), o: iri("x:o"), g: None }); }
            shapes.push((format!("cycle{} + {} blank nodes with unique hashes", k, k), with_unique));
            let star: Vec<OQuad> = (1..=k).map(|i| edge(0, i, None)).collect();
            shapes.push((format!("star{}", k), star));
        }
        for (name, qs) in &shapes {
            let set: BTreeSet<OQuad> = qs.iter().cloned().collect();
            let qs: Vec<OQuad> = set.into_iter().collect();
            let d = dataset(&qs);
            let (want, _, max_list, max_depth, n_bnodes) = canonicalize(HashFn::S256, &qs);
            for factor in [0.25f32, 0.5, 0.75, 1.0, 2.0] { for plimit in [1usize, 2, 3, 6] {
                n += 1;
                let mut out = vec![];
                let r = normalize_with::<Sha256, _, _>(&d, &mut out, factor, plimit).map_err(|e| e.to_string());
                let over_depth = max_depth as f32 > factor * n_bnodes as f32;
                let over_perm = max_list > plimit;
                match r {
                    Ok(()) => {
                        let got = String::from_utf8(out).unwrap();
                        if over_perm { println!("{{\"mismatch\":\"no error although the permutation limit is exceeded\",\"case\":{:?},\"limit\":{},\"longest list\":{}}}", name, plimit, max_list); std::process::exit(1); }
                        if got != want { println!("{{\"mismatch\":\"canonical N-Quads differ from RDFC-1.0 under non-default limits\",\"case\":{:?},\"depth_factor\":{},\"permutation_limit\":{}}}", name, factor, plimit); std::process::exit(1); }
                    }
                    Err(e) => {
                        // the implementation prunes permutations and may need less depth than the plain transcription, never more
                        if !(over_depth || over_perm) { println!("{{\"mismatch\":\"canonicalisation failed within the configured limits\",\"case\":{:?},\"depth_factor\":{},\"permutation_limit\":{},\"blank nodes\":{},\"deepest recursion\":{},\"longest list\":{},\"error\":{:?}}}", name, factor, plimit, n_bnodes, max_depth, max_list, e); std::process::exit(1); }
                    }
                }
            }}
        }
    }
    // the shape of duplicated links over graphs with partially shared targets
    let d = vec![edge(1, 11, Some(iri("x:g1"))), edge(1, 11, Some(iri("x:g2"))), edge(2, 12, Some(iri("x:g1"))), edge(2, 13, Some(iri("x:g2")))];
    n += check(&d, "duplicated links over two graphs");
    // hubs: k leaves with equal first-degree hashes but distinguishable one step further (the permutation that
    // gives the least path must be found among all k! ones); k = 6 is the default permutation limit
    for k in 2..=6usize {
        let mut hub: Vec<OQuad> = vec![];
        for i in 1..=k {
            hub.push(edge(0, i, None));
            hub.push(edge(i, 10 + i, None));
            hub.push(OQuad { s: b(10 + i), p: iri("x:q"), o: iri(&format!("x:i{}", (i * 7) % 11)), g: None });
        }
        n += check(&hub, &format!("hub{}", k));
        let hub_in: Vec<OQuad> = hub.iter().map(|q| if q.s == b(0) { OQuad { s: q.o.clone(), p: q.p.clone(), o: q.s.clone(), g: Some(iri("x:g")) } } else { q.clone() }).collect();
        n += check(&hub_in, &format!("hub{} (edges towards the hub, in a named graph)", k));
    }
    // two isomorphic hubs with 6 leaves each: leaves and tips are distinguishable only through the literal at the
    // end, two steps from the hub; which of the 720 orderings is minimal depends on labels and hash function, so
    // the leaves are labelled in several orders
    let mut perms: Vec<Vec<usize>> = vec![];
    fn rec(cur: &mut Vec<usize>, out: &mut Vec<Vec<usize>>) { if cur.len() == 6 { out.push(cur.clone()); return; } for v in 0..6 { if !cur.contains(&v) { cur.push(v); rec(cur, out); cur.pop(); } } }
    rec(&mut vec![], &mut perms);
    for (pi, perm) in perms.iter().enumerate() {
        if !deep && pi % 7 != 0 { continue; }
        // vocabularies / label schemes (which ordering is minimal depends on the hash values); with hubs b100 / b200 the
        // six leaves are SHARED by the two hubs (labels derive from the first letter), the other two are disjoint stars
        for (ns, hubs) in [("x:", ["b100", "b200"]), ("x:", ["ch", "dh"]), ("http://example.org/", ["xh", "yh"])] {
            let mut d: Vec<OQuad> = vec![];
            for hub in hubs {
                for k in 0..6usize {
                    let (h, leaf, tip) = (OTerm::Bnode(hub.to_string()), OTerm::Bnode(format!("{}l{}", &hub[..1], k)), OTerm::Bnode(format!("{}t{}", &hub[..1], k)));
                    d.push(OQuad { s: h, p: iri(&format!("{}p", ns)), o: leaf.clone(), g: None });
                    d.push(OQuad { s: leaf, p: iri(&format!("{}q", ns)), o: tip.clone(), g: None });
                    d.push(OQuad { s: tip, p: iri(&format!("{}r", ns)), o: OTerm::Lit(format!("{}", perm[k])), g: None });
                }
            }
            n += check(&d, &format!("two hubs of 6 leaves ({}), literals assigned by permutation #{}", ns, pi));
        }
    }
    println!("{{\"ok\":true,\"comparisons\":{}}}", n);
}
