//! Replay for C06 kernels on the real sophia_c14n: canonicalise small, highly symmetric blank-node datasets
//! (cycles and cliques of 2..5 nodes, which force the permutation kernel) under every rotation/reversal of the
//! blank node labels and every quad order rotation; the canonical N-Quads must be identical and must contain
//! exactly the c14n0..c14n(n-1) labels.
use sophia_api::term::{BnodeId, IriRef, SimpleTerm};
use sophia_api::quad::Spog;
use sophia_c14n::rdfc10::normalize;
use std::collections::HashSet;
mod oracle;
mod rdfc;

fn b(i: usize) -> SimpleTerm<'static> { SimpleTerm::BlankNode(BnodeId::new_unchecked(format!("n{}", i).into())) }
fn p() -> SimpleTerm<'static> { SimpleTerm::Iri(IriRef::new_unchecked("x:p".into())) }

fn canon(edges: &[(usize, usize)], relabel: &dyn Fn(usize) -> usize) -> Result<String, String> {
    let d: HashSet<Spog<SimpleTerm<'static>>> = edges.iter().map(|(a, c)| ([b(relabel(*a)), p(), b(relabel(*c))], None)).collect();
    let mut out = vec![];
    normalize(&d, &mut out).map_err(|e| format!("{e}"))?;
    Ok(String::from_utf8(out).unwrap())
}

fn main() {
    if std::env::args().nth(1).as_deref() == Some("rdfc") { rdfc::main_rdfc(std::env::args().nth(2).as_deref() == Some("deep")); return; }
    let mut n_cases = 0;
    for n in 2..=5usize {
        let cycle: Vec<(usize, usize)> = (0..n).map(|i| (i, (i + 1) % n)).collect();
        let clique: Vec<(usize, usize)> = (0..n).flat_map(|i| (0..n).filter(move |j| *j != i).map(move |j| (i, j))).collect();
        for (name, edges) in [("cycle", &cycle), ("clique", &clique)] {
            let base = canon(edges, &|i| i);
            for k in 0..n {
                for rev in [false, true] {
                    let f = move |i: usize| if rev { (n - 1 - i + k) % n } else { (i + k) % n };
                    let c = canon(edges, &f);
                    n_cases += 1;
                    if c != base {
                        println!("{{\"mismatch\":\"canonical form depends on labels\",\"shape\":\"{}{}\",\"shift\":{},\"reversed\":{},\"a\":{:?},\"b\":{:?}}}", name, n, k, rev, base, c);
                        std::process::exit(1);
                    }
                }
            }
            if let Ok(txt) = &base {
                for i in 0..n {
                    if !txt.contains(&format!("_:c14n{}", i)) {
                        println!("{{\"mismatch\":\"label c14n{} missing\",\"shape\":\"{}{}\",\"text\":{:?}}}", i, name, n, txt);
                        std::process::exit(1);
                    }
                }
            } else {
                println!("{{\"mismatch\":\"canonicalization failed within default limits\",\"shape\":\"{}{}\",\"err\":{:?}}}", name, n, base);
                std::process::exit(1);
            }
        }
    }
    println!("{{\"ok\":true,\"cases\":{}}}", n_cases);
}
