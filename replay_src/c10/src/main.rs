//! Demonstration for C10 (not a registered check: the property is listed as not applicable to the technique).
//! Clone a term index / graph / dataset, drop the original, then read every term of the clone.  Run natively it
//! prints what it reads; run under Miri (`cargo +nightly miri run`) a use-after-free is reported if the clone
//! still borrows from the original.
use sophia_api::dataset::{Dataset, MutableDataset};
use sophia_api::graph::{Graph, MutableGraph};
use sophia_api::term::{BnodeId, IriRef, SimpleTerm, Term};
use sophia_api::quad::Quad;
use sophia_api::triple::Triple;
use sophia_inmem::dataset::{FastDataset, LightDataset};
use sophia_inmem::graph::{FastGraph, LightGraph};
use sophia_inmem::index::{SimpleTermIndex, TermIndex};

fn terms() -> Vec<SimpleTerm<'static>> {
    vec![
        SimpleTerm::Iri(IriRef::new_unchecked("http://example.org/a-rather-long-iri-to-defeat-small-string-tricks".into())),
        SimpleTerm::BlankNode(BnodeId::new_unchecked("b1".into())),
        SimpleTerm::LiteralDatatype("hello world".into(), IriRef::new_unchecked("http://example.org/dt".into())),
        SimpleTerm::Triple(Box::new([
            SimpleTerm::Iri(IriRef::new_unchecked("http://example.org/s".into())),
            SimpleTerm::Iri(IriRef::new_unchecked("http://example.org/p".into())),
            SimpleTerm::LiteralDatatype("nested".into(), IriRef::new_unchecked("http://example.org/dt".into())),
        ])),
    ]
}

fn main() {
    let ts = terms();
    // term index
    let mut ix = SimpleTermIndex::<u32>::new();
    let ids: Vec<u32> = ts.iter().map(|t| ix.ensure_index(t).unwrap()).collect();
    let c = ix.clone();
    // overwrite-prone: drop the original and allocate again
    drop(ix);
    let _junk: Vec<String> = (0..64).map(|i| format!("junk-{}-{}", i, "x".repeat(40))).collect();
    for (t, i) in ts.iter().zip(&ids) {
        let back = c.get_term(*i);
        assert!(Term::eq(&back, t), "clone of the index returns a different term for index {}: {:?} vs {:?}", i, back, t);
        assert_eq!(c.get_index(t), Some(*i));
    }
    // graphs / datasets
    macro_rules! graph { ($ty:ty) => {{
        let mut g = <$ty>::new();
        g.insert(&ts[0], &ts[0], &ts[2]).unwrap();
        g.insert(&ts[1], &ts[0], &ts[3]).unwrap();
        let c = g.clone();
        drop(g);
        let _junk: Vec<String> = (0..64).map(|i| format!("junk-{}-{}", i, "y".repeat(40))).collect();
        let mut n = 0;
        for t in c.triples() { let t = t.unwrap(); n += t.s().constituents().count() + t.o().constituents().count(); assert!(Term::eq(&t.p(), &ts[0])); }
        assert!(n >= 2);
    }}}
    graph!(FastGraph);
    graph!(LightGraph);
    macro_rules! dataset { ($ty:ty) => {{
        let mut d = <$ty>::new();
        d.insert(&ts[0], &ts[0], &ts[2], Some(&ts[1])).unwrap();
        d.insert(&ts[1], &ts[0], &ts[3], None::<&SimpleTerm>).unwrap();
        let c = d.clone();
        drop(d);
        let _junk: Vec<String> = (0..64).map(|i| format!("junk-{}-{}", i, "z".repeat(40))).collect();
        for q in c.quads() { let q = q.unwrap(); assert!(Term::eq(&q.p(), &ts[0])); }
        // and the converse: dropping the clone must not hurt the original
        let mut d2 = <$ty>::new();
        d2.insert(&ts[0], &ts[0], &ts[2], None::<&SimpleTerm>).unwrap();
        let c2 = d2.clone();
        drop(c2);
        for q in d2.quads() { let q = q.unwrap(); assert!(Term::eq(&q.s(), &ts[0])); }
    }}}
    dataset!(FastDataset);
    dataset!(LightDataset);
    println!("{{\"ok\":true}}");
}
