//! Small-domain enumerator for C01 on the real sophia_inmem stores: every history of <= 3 insert/remove
//! operations over 12 quads (2 graph names x 2 subjects x 1 predicate x 3 objects), on the four store types;
//! oracle = BTreeSet of quads; after every operation: returned flag, full enumeration, and all 16 bound/unbound
//! pattern shapes with constants taken from a probe quad.
use sophia_api::dataset::{Dataset, MutableDataset};
use sophia_api::graph::{Graph, MutableGraph};
use sophia_api::prelude::*;
use sophia_api::term::matcher::Any;
use sophia_api::term::{BnodeId, GraphName, IriRef, SimpleTerm, Term};
use sophia_api::quad::Quad;
use sophia_api::triple::Triple;
use sophia_inmem::dataset::{FastDataset, LightDataset};
use sophia_inmem::graph::{FastGraph, LightGraph};
use std::collections::BTreeSet;

type Q = (usize, usize, usize, usize); // g (0 = default), s, p, o as term numbers

fn term(i: usize) -> SimpleTerm<'static> {
    match i {
        1 => SimpleTerm::Iri(IriRef::new_unchecked("x:a".into())),
        2 => SimpleTerm::BlankNode(BnodeId::new_unchecked("b".into())),
        _ => SimpleTerm::LiteralDatatype("l".into(), IriRef::new_unchecked("x:d".into())),
    }
}
fn unknown() -> SimpleTerm<'static> { SimpleTerm::Iri(IriRef::new_unchecked("x:unknown".into())) }
fn gname(i: usize) -> GraphName<SimpleTerm<'static>> { if i == 0 { None } else { Some(term(i)) } }
fn tnum(t: &SimpleTerm) -> usize { if t.is_iri() { 1 } else if t.is_blank_node() { 2 } else { 3 } }

fn quads() -> Vec<Q> {
    let mut v = vec![];
    for g in [0, 1] { for s in [1, 2] { for o in [1, 2, 3] { v.push((g, s, 1, o)); } } }
    v
}

fn fail(store: &str, hist: &[(bool, Q)], what: String) -> ! {
    println!("{{\"store\":{:?},\"history\":{:?},\"mismatch\":{:?}}}", store, hist.iter().map(|(i, q)| format!("{}{:?}", if *i { "insert" } else { "remove" }, q)).collect::<Vec<_>>(), what);
    std::process::exit(1);
}

fn check_ds<D: MutableDataset + Dataset + Default>(name: &str, hist: &[(bool, Q)]) {
    let mut d = D::default();
    let mut oracle: BTreeSet<Q> = BTreeSet::new();
    for (n, (ins, q)) in hist.iter().enumerate() {
        let r = if *ins { d.insert(term(q.1), term(q.2), term(q.3), gname(q.0)).unwrap() } else { d.remove(term(q.1), term(q.2), term(q.3), gname(q.0)).unwrap() };
        let want = if *ins { oracle.insert(*q) } else { oracle.remove(q) };
        if r != want { fail(name, &hist[..=n], format!("flag {} expected {}", r, want)); }
        let got: Vec<Q> = d.quads().map(|x| { let x = x.unwrap(); let r = (x.g().map(|t| tnum(&t.as_simple())).unwrap_or(0), tnum(&x.s().as_simple()), tnum(&x.p().as_simple()), tnum(&x.o().as_simple())); r }).collect();
        let gs: BTreeSet<Q> = got.iter().cloned().collect();
        if gs != oracle || got.len() != oracle.len() { fail(name, &hist[..=n], format!("quads() = {:?} expected {:?}", got, oracle)); }
        // all 16 shapes with constants from the probe quad (the op's quad)
        for shape in 0..16u32 {
            let sm: Option<SimpleTerm> = if shape & 1 != 0 { Some(term(q.1)) } else { None };
            let pm: Option<SimpleTerm> = if shape & 2 != 0 { Some(term(q.2)) } else { None };
            let om: Option<SimpleTerm> = if shape & 4 != 0 { Some(term(q.3)) } else { None };
            let gm: Option<GraphName<SimpleTerm>> = if shape & 8 != 0 { Some(gname(q.0)) } else { None };
            let want: BTreeSet<Q> = oracle.iter().cloned().filter(|x| (shape & 1 == 0 || x.1 == q.1) && (shape & 2 == 0 || x.2 == q.2) && (shape & 4 == 0 || x.3 == q.3) && (shape & 8 == 0 || x.0 == q.0)).collect();
            macro_rules! run { ($s:expr, $p:expr, $o:expr, $g:expr) => {{
                let got: Vec<Q> = d.quads_matching($s, $p, $o, $g).map(|x| { let x = x.unwrap(); let r = (x.g().map(|t| tnum(&t.as_simple())).unwrap_or(0), tnum(&x.s().as_simple()), tnum(&x.p().as_simple()), tnum(&x.o().as_simple())); r }).collect();
                let gs: BTreeSet<Q> = got.iter().cloned().collect();
                if gs != want || got.len() != want.len() { fail(name, &hist[..=n], format!("quads_matching shape {:04b} = {:?} expected {:?}", shape, got, want)); }
            }}}
            match (sm, pm, om, gm) {
                (None, None, None, None) => run!(Any, Any, Any, Any),
                (Some(s), None, None, None) => run!([s], Any, Any, Any),
                (None, Some(p), None, None) => run!(Any, [p], Any, Any),
                (Some(s), Some(p), None, None) => run!([s], [p], Any, Any),
                (None, None, Some(o), None) => run!(Any, Any, [o], Any),
                (Some(s), None, Some(o), None) => run!([s], Any, [o], Any),
                (None, Some(p), Some(o), None) => run!(Any, [p], [o], Any),
                (Some(s), Some(p), Some(o), None) => run!([s], [p], [o], Any),
                (None, None, None, Some(g)) => run!(Any, Any, Any, [g]),
                (Some(s), None, None, Some(g)) => run!([s], Any, Any, [g]),
                (None, Some(p), None, Some(g)) => run!(Any, [p], Any, [g]),
                (Some(s), Some(p), None, Some(g)) => run!([s], [p], Any, [g]),
                (None, None, Some(o), Some(g)) => run!(Any, Any, [o], [g]),
                (Some(s), None, Some(o), Some(g)) => run!([s], Any, [o], [g]),
                (None, Some(p), Some(o), Some(g)) => run!(Any, [p], [o], [g]),
                (Some(s), Some(p), Some(o), Some(g)) => run!([s], [p], [o], [g]),
            }
        }
        // other read paths: contains() for every quad of the universe, and the term enumerations (as sets: the API
        // allows an enumeration of terms to repeat a term)
        {
            for x in quads() {
                let c = d.contains(term(x.1), term(x.2), term(x.3), gname(x.0)).unwrap();
                if c != oracle.contains(&x) { fail(name, &hist[..=n], format!("contains({:?}) = {} expected {}", x, c, oracle.contains(&x))); }
            }
            if d.contains(unknown(), term(1), term(1), gname(0)).unwrap() { fail(name, &hist[..=n], "contains(unknown term) is true".into()); }
            macro_rules! en { ($what:expr, $it:expr, $want:expr) => {{
                let got: Vec<usize> = $it.map(|t| tnum(&t.unwrap().as_simple())).collect();
                let gs: BTreeSet<usize> = got.iter().cloned().collect();
                let want: BTreeSet<usize> = $want;
                if gs != want { fail(name, &hist[..=n], format!("{} = {:?} expected the set {:?}", $what, got, want)); }
            }}}
            en!("subjects()", d.subjects(), oracle.iter().map(|x| x.1).collect());
            en!("predicates()", d.predicates(), oracle.iter().map(|x| x.2).collect());
            en!("objects()", d.objects(), oracle.iter().map(|x| x.3).collect());
            en!("graph_names()", d.graph_names(), oracle.iter().filter(|x| x.0 != 0).map(|x| x.0).collect());
            en!("iris()", d.iris(), oracle.iter().flat_map(|x| [x.0, x.1, x.2, x.3]).filter(|k| *k == 1).collect());
            en!("blank_nodes()", d.blank_nodes(), oracle.iter().flat_map(|x| [x.0, x.1, x.2, x.3]).filter(|k| *k == 2).collect());
            en!("literals()", d.literals(), oracle.iter().flat_map(|x| [x.0, x.1, x.2, x.3]).filter(|k| *k == 3).collect());
            if d.variables().count() != 0 { fail(name, &hist[..=n], "variables() not empty".into()); }
        }
        // other matcher kinds, one position at a time (the others Any) and combined: negation of a constant / of
        // several constants, several constants, a closure, a term kind, Option, on s / p / o / g
        {
            use sophia_api::term::matcher::Not;
            use sophia_api::term::TermKind;
            macro_rules! mk { ($what:expr, $s:expr, $p:expr, $o:expr, $g:expr, $pred:expr) => {{
                let want: BTreeSet<Q> = oracle.iter().cloned().filter($pred).collect();
                let got: Vec<Q> = d.quads_matching($s, $p, $o, $g).map(|x| { let x = x.unwrap(); let r = (x.g().map(|t| tnum(&t.as_simple())).unwrap_or(0), tnum(&x.s().as_simple()), tnum(&x.p().as_simple()), tnum(&x.o().as_simple())); r }).collect();
                let gs: BTreeSet<Q> = got.iter().cloned().collect();
                if gs != want || got.len() != want.len() { fail(name, &hist[..=n], format!("quads_matching {} = {:?} expected {:?}", $what, got, want)); }
            }}}
            let (qs, qo, qg) = (q.1, q.3, q.0);
            mk!("(Not([s]),*,*,*)", Not([term(qs)]), Any, Any, Any, |x: &Q| x.1 != qs);
            mk!("(*,Not([p]),*,*)", Any, Not([term(q.2)]), Any, Any, |x: &Q| x.2 != q.2);
            mk!("(*,*,Not([o]),*)", Any, Any, Not([term(qo)]), Any, |x: &Q| x.3 != qo);
            mk!("(*,*,*,Not([g]))", Any, Any, Any, Not([gname(qg)]), |x: &Q| x.0 != qg);
            mk!("(*,*,*,Not([default]))", Any, Any, Any, Not([None::<SimpleTerm>]), |x: &Q| x.0 != 0);
            mk!("(Not([s]),*,Not([o]),Not([g]))", Not([term(qs)]), Any, Not([term(qo)]), Not([gname(qg)]), |x: &Q| x.1 != qs && x.3 != qo && x.0 != qg);
            mk!("(Not(Some(s)),*,[o],*)", Not(Some(term(qs))), Any, [term(qo)], Any, |x: &Q| x.1 != qs && x.3 == qo);
            mk!("(Not([unknown]),*,*,*)", Not([unknown()]), Any, Any, Any, |_x: &Q| true);
            mk!("([s,unknown],*,[1,3],*)", [term(qs), unknown()], Any, [term(1), term(3)], Any, |x: &Q| x.1 == qs && (x.3 == 1 || x.3 == 3));
            mk!("(Not([1,2]),*,Not([1,3]),*)", Not([term(1), term(2)]), Any, Not([term(1), term(3)]), Any, |x: &Q| x.1 != 1 && x.1 != 2 && x.3 == 2);
            mk!("(closure is_iri,*,closure !is_iri,*)", |t: SimpleTerm| t.is_iri(), Any, |t: SimpleTerm| !t.is_iri(), Any, |x: &Q| x.1 == 1 && x.3 != 1);
            mk!("(kind BlankNode,*,kind Literal,*)", TermKind::BlankNode, Any, TermKind::Literal, Any, |x: &Q| x.1 == 2 && x.3 == 3);
            mk!("(*,*,Some(o),[g, default])", Any, Any, Some(term(qo)), [gname(qg), None], |x: &Q| x.3 == qo && (x.0 == qg || x.0 == 0));
            mk!("(*,*,*,closure named)", Any, Any, Any, |g: GraphName<SimpleTerm>| g.is_some(), |x: &Q| x.0 != 0);
        }
    }
}

fn check_g<G: MutableGraph + Graph + Default>(name: &str, hist: &[(bool, Q)]) {
    let mut d = G::default();
    let mut oracle: BTreeSet<Q> = BTreeSet::new();
    for (n, (ins, q0)) in hist.iter().enumerate() {
        let q = &(0, q0.1, q0.2, q0.3);
        let r = if *ins { d.insert(term(q.1), term(q.2), term(q.3)).unwrap() } else { d.remove(term(q.1), term(q.2), term(q.3)).unwrap() };
        let want = if *ins { oracle.insert(*q) } else { oracle.remove(q) };
        if r != want { fail(name, &hist[..=n], format!("flag {} expected {}", r, want)); }
        for shape in 0..8u32 {
            let want: BTreeSet<Q> = oracle.iter().cloned().filter(|x| (shape & 1 == 0 || x.1 == q.1) && (shape & 2 == 0 || x.2 == q.2) && (shape & 4 == 0 || x.3 == q.3)).collect();
            macro_rules! run { ($s:expr, $p:expr, $o:expr) => {{
                let got: Vec<Q> = d.triples_matching($s, $p, $o).map(|x| { let x = x.unwrap(); let r = (0, tnum(&x.s().as_simple()), tnum(&x.p().as_simple()), tnum(&x.o().as_simple())); r }).collect();
                let gs: BTreeSet<Q> = got.iter().cloned().collect();
                if gs != want || got.len() != want.len() { fail(name, &hist[..=n], format!("triples_matching shape {:03b} = {:?} expected {:?}", shape, got, want)); }
            }}}
            let (s, p, o) = (term(q.1), term(q.2), term(q.3));
            match shape {
                0 => run!(Any, Any, Any), 1 => run!([s], Any, Any), 2 => run!(Any, [p], Any), 3 => run!([s], [p], Any),
                4 => run!(Any, Any, [o]), 5 => run!([s], Any, [o]), 6 => run!(Any, [p], [o]), _ => run!([s], [p], [o]),
            }
        }
        {
            use sophia_api::term::matcher::Not;
            use sophia_api::term::TermKind;
            macro_rules! mk { ($what:expr, $s:expr, $p:expr, $o:expr, $pred:expr) => {{
                let want: BTreeSet<Q> = oracle.iter().cloned().filter($pred).collect();
                let got: Vec<Q> = d.triples_matching($s, $p, $o).map(|x| { let x = x.unwrap(); let r = (0, tnum(&x.s().as_simple()), tnum(&x.p().as_simple()), tnum(&x.o().as_simple())); r }).collect();
                let gs: BTreeSet<Q> = got.iter().cloned().collect();
                if gs != want || got.len() != want.len() { fail(name, &hist[..=n], format!("triples_matching {} = {:?} expected {:?}", $what, got, want)); }
            }}}
            for x in quads().into_iter().filter(|x| x.0 == 0) {
                let c = d.contains(term(x.1), term(x.2), term(x.3)).unwrap();
                if c != oracle.contains(&x) { fail(name, &hist[..=n], format!("contains({:?}) = {} expected {}", x, c, oracle.contains(&x))); }
            }
            macro_rules! en { ($what:expr, $it:expr, $want:expr) => {{
                let got: Vec<usize> = $it.map(|t| tnum(&t.unwrap().as_simple())).collect();
                let gs: BTreeSet<usize> = got.iter().cloned().collect();
                let want: BTreeSet<usize> = $want;
                if gs != want { fail(name, &hist[..=n], format!("{} = {:?} expected the set {:?}", $what, got, want)); }
            }}}
            en!("subjects()", d.subjects(), oracle.iter().map(|x| x.1).collect());
            en!("predicates()", d.predicates(), oracle.iter().map(|x| x.2).collect());
            en!("objects()", d.objects(), oracle.iter().map(|x| x.3).collect());
            en!("iris()", d.iris(), oracle.iter().flat_map(|x| [x.1, x.2, x.3]).filter(|k| *k == 1).collect());
            en!("blank_nodes()", d.blank_nodes(), oracle.iter().flat_map(|x| [x.1, x.2, x.3]).filter(|k| *k == 2).collect());
            en!("literals()", d.literals(), oracle.iter().flat_map(|x| [x.1, x.2, x.3]).filter(|k| *k == 3).collect());
            let all: Vec<Q> = d.triples().map(|x| { let x = x.unwrap(); let r = (0, tnum(&x.s().as_simple()), tnum(&x.p().as_simple()), tnum(&x.o().as_simple())); r }).collect();
            if all.len() != oracle.len() || all.iter().cloned().collect::<BTreeSet<Q>>() != oracle { fail(name, &hist[..=n], format!("triples() = {:?} expected {:?}", all, oracle)); }
            let (qs, qo) = (q.1, q.3);
            mk!("(Not([s]),*,*)", Not([term(qs)]), Any, Any, |x: &Q| x.1 != qs);
            mk!("(*,Not([p]),*)", Any, Not([term(q.2)]), Any, |x: &Q| x.2 != q.2);
            mk!("(*,*,Not([o]))", Any, Any, Not([term(qo)]), |x: &Q| x.3 != qo);
            mk!("(Not([s]),*,Not([o]))", Not([term(qs)]), Any, Not([term(qo)]), |x: &Q| x.1 != qs && x.3 != qo);
            mk!("([s],*,Not(Some(o)))", [term(qs)], Any, Not(Some(term(qo))), |x: &Q| x.1 == qs && x.3 != qo);
            mk!("(Not([unknown]),[p],*)", Not([unknown()]), [term(q.2)], Any, |x: &Q| x.2 == q.2);
            mk!("([s,unknown],*,[1,3])", [term(qs), unknown()], Any, [term(1), term(3)], |x: &Q| x.1 == qs && (x.3 == 1 || x.3 == 3));
            mk!("(closure is_iri,*,kind Literal)", |t: SimpleTerm| t.is_iri(), Any, TermKind::Literal, |x: &Q| x.1 == 1 && x.3 == 3);
        }
    }
}

/// "index full => Err before any state change of the quad sets", on the 16-bit stores: fill the term index up to
/// its last free slot, then insert a triple/quad needing two new terms: the first gets the last slot, the second
/// makes ensure_index fail; the store must report an error and hold exactly what it held before.
fn check_index_full() {
    use sophia_inmem::dataset::small::{FastDataset as SFD, LightDataset as SLD};
    use sophia_inmem::graph::small::{FastGraph as SFG, LightGraph as SLG};
    fn it(i: usize) -> SimpleTerm<'static> { SimpleTerm::Iri(IriRef::new_unchecked(format!("x:t{}", i).into())) }
    const MAX: usize = u16::MAX as usize; // 65535 is reserved: 65535 terms fit (indices 0..65534)
    macro_rules! graph { ($ty:ty, $name:expr) => {{
        let mut g = <$ty>::new();
        // terms 0 (predicate/object) and 1..=MAX-2 as subjects: MAX-1 terms, one slot left
        for i in 1..=(MAX - 2) { g.insert(it(i), it(0), it(0)).unwrap(); }
        let before = g.triples().count();
        let r = g.insert(it(1_000_000), it(0), it(1_000_001));
        let after: Vec<(bool, bool)> = g.triples().map(|t| { let t = t.unwrap(); (Term::eq(&t.s(), it(1_000_000)), Term::eq(&t.o(), it(1_000_001))) }).collect();
        if r.is_ok() || after.len() != before || after.iter().any(|(a, b)| *a || *b) {
            fail($name, &[], format!("index full: insert returned {:?}, triples {} -> {}", r.map_err(|e| e.to_string()), before, after.len()));
        }
        let m = g.triples_matching([it(1_000_000)], Any, Any).count() + g.triples_matching(Any, Any, [it(1_000_000)]).count() + g.triples_matching(Any, [it(1_000_000)], Any).count();
        if m != 0 { fail($name, &[], format!("index full: a failed insert left {} matching triples behind", m)); }
        // a full (or nearly full) index still serves triples made of terms it already knows
        let r1 = g.insert(it(1), it(0), it(2));
        let r2 = g.insert(it(1), it(0), it(2));
        let r3 = g.remove(it(1), it(0), it(2));
        if !matches!(r1, Ok(true)) || !matches!(r2, Ok(false)) || !matches!(r3, Ok(true)) || g.triples().count() != before {
            fail($name, &[], format!("index full: insert / re-insert / remove of a new triple over KNOWN terms gave {:?} / {:?} / {:?} (expected Ok(true) / Ok(false) / Ok(true))", r1.map_err(|e| e.to_string()), r2.map_err(|e| e.to_string()), r3.map_err(|e| e.to_string())));
        }
    }}}
    graph!(SFG, "small::FastGraph");
    graph!(SLG, "small::LightGraph");
    macro_rules! dataset { ($ty:ty, $name:expr) => {{
        let mut d = <$ty>::new();
        for i in 1..=(MAX - 2) { d.insert(it(i), it(0), it(0), None::<SimpleTerm>).unwrap(); }
        let before = d.quads().count();
        let r = d.insert(it(0), it(0), it(1_000_000), Some(it(1_000_001)));
        let after = d.quads().count();
        let m = d.quads_matching(Any, Any, [it(1_000_000)], Any).count() + d.quads_matching(Any, Any, Any, [Some(it(1_000_001))]).count();
        if r.is_ok() || after != before || m != 0 {
            fail($name, &[], format!("index full: insert returned {:?}, quads {} -> {}, {} leftovers", r.map_err(|e| e.to_string()), before, after, m));
        }
        let r1 = d.insert(it(1), it(0), it(2), Some(it(3)));
        let r2 = d.insert(it(1), it(0), it(2), Some(it(3)));
        let r3 = d.remove(it(1), it(0), it(2), Some(it(3)));
        if !matches!(r1, Ok(true)) || !matches!(r2, Ok(false)) || !matches!(r3, Ok(true)) || d.quads().count() != before {
            fail($name, &[], format!("index full: insert / re-insert / remove of a new quad over KNOWN terms gave {:?} / {:?} / {:?} (expected Ok(true) / Ok(false) / Ok(true))", r1.map_err(|e| e.to_string()), r2.map_err(|e| e.to_string()), r3.map_err(|e| e.to_string())));
        }
    }}}
    dataset!(SFD, "small::FastDataset");
    dataset!(SLD, "small::LightDataset");
}

/// bulk and pattern-based mutations against a set oracle, on every shipped set implementation: every subset of
/// <= 3 of the 12 quads as the initial content; remove_matching / retain_matching with constant, multi-valued,
/// Option, Any, negated and closure matchers on s / o / g; insert_all / remove_all of streams with duplicates,
/// members and non-members; the returned counts are the numbers of quads really added / removed
fn check_bulk<D: MutableDataset + Dataset + Default>(name: &str, init: &[Q]) where <D as MutableDataset>::MutationError: From<<D as Dataset>::Error> {
    use sophia_api::term::matcher::Not;
    let build = || { let mut d = D::default(); for q in init { d.insert(term(q.1), term(q.2), term(q.3), gname(q.0)).unwrap(); } d };
    let content = |d: &D| -> BTreeSet<Q> { d.quads().map(|x| { let x = x.unwrap(); let r = (x.g().map(|t| tnum(&t.as_simple())).unwrap_or(0), tnum(&x.s().as_simple()), tnum(&x.p().as_simple()), tnum(&x.o().as_simple())); r }).collect() };
    let set: BTreeSet<Q> = init.iter().cloned().collect();
    let hist: Vec<(bool, Q)> = init.iter().map(|q| (true, *q)).collect();
    macro_rules! pat { ($what:expr, $s:expr, $p:expr, $o:expr, $g:expr, $pred:expr) => {{
        // remove_matching
        let mut d = build();
        let n = d.remove_matching($s, $p, $o, $g).unwrap();
        let want: BTreeSet<Q> = set.iter().cloned().filter(|x| !($pred)(x)).collect();
        let got = content(&d);
        if got != want || n != set.len() - want.len() { fail(name, &hist, format!("remove_matching{} left {:?} (count {}) expected {:?} (count {})", $what, got, n, want, set.len() - want.len())); }
        // retain_matching
        let mut d = build();
        d.retain_matching($s, $p, $o, $g).unwrap();
        let want: BTreeSet<Q> = set.iter().cloned().filter(|x| ($pred)(x)).collect();
        let got = content(&d);
        if got != want { fail(name, &hist, format!("retain_matching{} left {:?} expected {:?}", $what, got, want)); }
    }}}
    pat!("([2],*,*,[g1])", [term(2)], Any, Any, [gname(1)], |x: &Q| x.1 == 2 && x.0 == 1);
    pat!("(*,*,*,[default])", Any, Any, Any, [gname(0)], |x: &Q| x.0 == 0);
    pat!("(*,*,*,Some(default))", Any, Any, Any, Some(gname(0)), |x: &Q| x.0 == 0);
    pat!("(*,*,*,Some(g1))", Any, Any, Any, Some(gname(1)), |x: &Q| x.0 == 1);
    pat!("(*,*,[3],[unknown graph])", Any, Any, [term(3)], [Some(unknown())], |_x: &Q| false);
    pat!("([1],*,*,*)", [term(1)], Any, Any, Any, |x: &Q| x.1 == 1);
    pat!("(*,[1],[1,3],[default,g1])", Any, [term(1)], [term(1), term(3)], [gname(0), gname(1)], |x: &Q| x.3 == 1 || x.3 == 3);
    pat!("(Not([1]),*,*,Not([default]))", Not([term(1)]), Any, Any, Not([gname(0)]), |x: &Q| x.1 != 1 && x.0 != 0);
    pat!("(*,*,closure literal,closure named)", Any, Any, |t: SimpleTerm| t.is_literal(), |g: GraphName<SimpleTerm>| g.is_some(), |x: &Q| x.3 == 3 && x.0 != 0);
    pat!("(*,*,*,*)", Any, Any, Any, Any, |_x: &Q| true);
    pat!("([unknown],*,*,*)", [unknown()], Any, Any, Any, |_x: &Q| false);
    // insert_all / remove_all: streams with duplicates, members and non-members
    let stream: Vec<Q> = vec![(0, 1, 1, 1), (1, 2, 1, 3), (0, 1, 1, 1), (1, 1, 1, 2), (1, 2, 1, 3)];
    let as_quads = |v: &[Q]| -> Vec<sophia_api::quad::Spog<SimpleTerm<'static>>> { v.iter().map(|q| ([term(q.1), term(q.2), term(q.3)], gname(q.0))).collect() };
    let mut d = build();
    let n = d.insert_all(as_quads(&stream).quads()).unwrap();
    let mut want = set.clone(); let mut added = 0; for q in &stream { if want.insert(*q) { added += 1; } }
    if content(&d) != want || n != added { fail(name, &hist, format!("insert_all({:?}) gave {:?} (count {}) expected {:?} (count {})", stream, content(&d), n, want, added)); }
    let mut d = build();
    let n = d.remove_all(as_quads(&stream).quads()).unwrap();
    let mut want = set.clone(); let mut removed = 0; for q in &stream { if want.remove(q) { removed += 1; } }
    if content(&d) != want || n != removed { fail(name, &hist, format!("remove_all({:?}) gave {:?} (count {}) expected {:?} (count {})", stream, content(&d), n, want, removed)); }
}

fn main() {
    check_index_full();
    {
        use std::collections::{BTreeSet as BS, HashSet as HS};
        use sophia_api::quad::Spog;
        let qs = quads();
        let mut inits: Vec<Vec<Q>> = vec![vec![]];
        for a in 0..qs.len() { inits.push(vec![qs[a]]); for b in a + 1..qs.len() { inits.push(vec![qs[a], qs[b]]); for c in b + 1..qs.len() { inits.push(vec![qs[a], qs[b], qs[c]]); } } }
        inits.push(qs.clone());
        for init in &inits {
            check_bulk::<FastDataset>("FastDataset", init);
            check_bulk::<LightDataset>("LightDataset", init);
            check_bulk::<HS<Spog<SimpleTerm<'static>>>>("HashSet<Spog>", init);
            check_bulk::<BS<Spog<SimpleTerm<'static>>>>("BTreeSet<Spog>", init);
        }
    }
    let qs = quads();
    let mut ops: Vec<(bool, Q)> = vec![];
    for q in &qs { ops.push((true, *q)); ops.push((false, *q)); }
    let mut n = 0u64;
    for a in &ops { for b in &ops { for c in &ops {
        let h = [*a, *b, *c];
        check_ds::<FastDataset>("FastDataset", &h);
        check_ds::<LightDataset>("LightDataset", &h);
        if a.1.0 == 0 && b.1.0 == 0 && c.1.0 == 0 {
            check_g::<FastGraph>("FastGraph", &h);
            check_g::<LightGraph>("LightGraph", &h);
        }
        n += 1;
    }}}
    println!("{{\"ok\":true,\"histories\":{}}}", n);
}
