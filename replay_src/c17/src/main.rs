//! Small-domain enumerator for C17 on the real sophia_iri (release semantics are observed by catching panics):
//! bases x IRIs built from a scheme (+ optional authority) and a tail of <= 5 characters over {a, b, /, ., :, ?, #};
//! parents in 0..=2.  For every pair where both are valid absolute IRIs:
//!   relativize(iri) = Some(r)  =>  r is a valid IRI reference, base.resolve(r) == iri, r has <= parents leading "../"
//!   iri equal to base up to query/fragment => Some.
use sophia_iri::relativize::Relativizer;
use sophia_iri::resolve::BaseIri;
use sophia_iri::{is_absolute_iri_ref, is_valid_iri_ref, Iri};

fn tails(maxlen: usize) -> Vec<String> {
    let alpha = ['a', 'b', '/', '.', ':', '?', '#'];
    let mut all = vec![String::new()];
    let mut frontier = vec![String::new()];
    for _ in 0..maxlen {
        let mut next = vec![];
        for s in &frontier { for c in alpha { let mut t = s.clone(); t.push(c); next.push(t); } }
        all.extend(next.iter().cloned());
        frontier = next;
    }
    all
}

fn main() {
    let only_first = std::env::args().nth(1).map(|s| s == "first").unwrap_or(true);
    let prefixes = ["s:", "s://h"];
    let base_tails = ["", "/", "/a", "/a/", "/a/b", "/a/b/", "/a/b?q", "/a/b#f", "/a/b/c", "a", "a/b"];
    let ts = tails(4);
    let mut n = 0u64;
    let mut findings = 0u64;
    for pre in prefixes { for bt in base_tails {
        let base_s = format!("{}{}", pre, bt);
        if !is_absolute_iri_ref(&base_s) { continue; }
        let Ok(base) = BaseIri::new(base_s.clone()) else { continue; };
        for parents in 0..=2u8 {
            let rel = Relativizer::new(base.as_ref(), parents);
            for t in &ts {
                let iri_s = format!("{}{}", pre, t);
                if !is_absolute_iri_ref(&iri_s) { continue; }
                n += 1;
                let r = std::panic::catch_unwind(|| rel.relativize(Iri::new_unchecked(iri_s.as_str())).map(|r| r.as_str().to_string()));
                let problem = match r {
                    Err(_) => Some("panic".to_string()),
                    Ok(None) => {
                        // must relativize when equal up to query/fragment
                        let cut = |s: &str| s.split(['?', '#']).next().unwrap().to_string();
                        if cut(&iri_s) == cut(&base_s) { Some("returned None for an IRI differing from the base only in query/fragment".into()) } else { None }
                    }
                    Ok(Some(r)) => {
                        if !is_valid_iri_ref(&r) { Some(format!("result {:?} is not a valid IRI reference", r)) }
                        else {
                            let back: String = base.resolve(r.as_str()).map(|i| i.as_str().to_string()).unwrap_or_else(|e| format!("<resolve error {e}>"));
                            let ups = r.split('/').take_while(|s| *s == "..").count();
                            if back != iri_s { Some(format!("resolve(base, {:?}) = {:?}", r, back)) }
                            else if ups > parents as usize { Some(format!("{:?} uses {} parent steps", r, ups)) }
                            else { None }
                        }
                    }
                };
                if let Some(p) = problem {
                    findings += 1;
                    println!("{{\"mismatch\":{:?},\"base\":{:?},\"iri\":{:?},\"parents\":{}}}", p, base_s, iri_s, parents);
                    if only_first { std::process::exit(1); }
                }
            }
        }
    }}
    println!("{{\"ok\":{},\"pairs\":{},\"findings\":{}}}", findings == 0, n, findings);
    if findings > 0 { std::process::exit(1); }
}
