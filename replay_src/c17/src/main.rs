//! Small-domain enumerator for C17 on the real sophia_iri (release semantics are observed by catching panics):
//! bases x IRIs built from a scheme (+ optional authority) and a tail of <= 5 characters over {a, b, /, ., :, ?, #};
//! parents in 0..=2.  For every pair where both are valid absolute IRIs:
//!   relativize(iri) = Some(r)  =>  r is a valid IRI reference, base.resolve(r) == iri, r has <= parents leading "../"
//!   iri equal to base up to query/fragment => Some.
use sophia_iri::relativize::Relativizer;
use sophia_iri::resolve::BaseIri;
use sophia_iri::{is_absolute_iri_ref, is_valid_iri_ref, Iri};

fn tails(maxlen: usize) -> Vec<String> {
    let alpha = ['a', 'b', '/', '.', ':', '?', '#'];
    let mut all = vec![String::new()];
    let mut frontier = vec![String::new()];
    for _ in 0..maxlen {
        let mut next = vec![];
        for s in &frontier { for c in alpha { let mut t = s.clone(); t.push(c); next.push(t); } }
        all.extend(next.iter().cloned());
        frontier = next;
    }
    all
}

fn shortest_ref(base: &BaseIri<String>, iri: &str) -> Option<String> {
    let mut alpha: Vec<char> = iri.chars().collect();
    alpha.extend(['/', '.', '?', '#']);
    alpha.sort();
    alpha.dedup();
    let mut frontier = vec![String::new()];
    for _ in 0..=5 {
        let mut next = vec![];
        for s in &frontier {
            if is_valid_iri_ref(s) {
                if let Ok(r) = base.resolve(s.as_str()) { if r.as_str() == iri { return Some(s.clone()); } }
            }
            if s.chars().count() < 5 { for c in &alpha { let mut t = s.clone(); t.push(*c); next.push(t); } }
        }
        frontier = next;
    }
    None
}

fn main() {
    let only_first = std::env::args().nth(1).map(|s| s == "first").unwrap_or(true);
    let prefixes = ["s:", "s://h"];
    let base_tails = ["", "/", "/a", "/a/", "/a/b", "/a/b/", "/a/b?q", "/a/b#f", "/a/b/c", "a", "a/b"];
    let ts = tails(4);
    let mut n = 0u64;
    let mut findings = 0u64;
    for pre in prefixes { for bt in base_tails {
        let base_s = format!("{}{}", pre, bt);
        if !is_absolute_iri_ref(&base_s) { continue; }
        let Ok(base) = BaseIri::new(base_s.clone()) else { continue; };
        for parents in 0..=2u8 {
            let rel = Relativizer::new(base.as_ref(), parents);
            for t in &ts {
                let iri_s = format!("{}{}", pre, t);
                if !is_absolute_iri_ref(&iri_s) { continue; }
                n += 1;
                let r = std::panic::catch_unwind(|| rel.relativize(Iri::new_unchecked(iri_s.as_str())).map(|r| r.as_str().to_string()));
                let problem = match r {
                    Err(_) => Some("panic".to_string()),
                    Ok(None) => {
                        // must relativize when equal up to query/fragment
                        let cut = |s: &str| s.split(['?', '#']).next().unwrap().to_string();
                        if cut(&iri_s) == cut(&base_s) { Some("returned None for an IRI differing from the base only in query/fragment".into()) } else { None }
                    }
                    Ok(Some(r)) => {
                        if !is_valid_iri_ref(&r) { Some(format!("result {:?} is not a valid IRI reference", r)) }
                        else {
                            let back: String = base.resolve(r.as_str()).map(|i| i.as_str().to_string()).unwrap_or_else(|e| format!("<resolve error {e}>"));
                            let ups = r.split('/').take_while(|s| *s == "..").count();
                            if back != iri_s { Some(format!("resolve(base, {:?}) = {:?}", r, back)) }
                            else if ups > parents as usize { Some(format!("{:?} uses {} parent steps", r, ups)) }
                            else { None }
                        }
                    }
                };
                if let Some(p) = problem {
                    findings += 1;
                    println!("{{\"mismatch\":{:?},\"base\":{:?},\"iri\":{:?},\"parents\":{}}}", p, base_s, iri_s, parents);
                    if only_first { std::process::exit(1); }
                }
            }
        }
    }}
    // family 2 (completeness clause): IRIs equal to the base up to query / fragment, with longer queries and
    // fragments than the tails above reach, bases with an empty path, and non-ASCII characters before the cut
    let bases2 = ["s://h/a/b/c/d", "s://h/a/b/c/d?q", "s://h/a/b/c/d?q#f", "s://h/a/b/c/d#f", "s://h/a/", "s://h/a/?q", "s://h/", "s://h/?q#f",
        "s://h", "s://h?q", "s://h#f", "s://h?q#f", "s:", "s:?q", "s:?q#f", "s:#f", "s:a", "s:a?q", "s:/a?q#f", "s:a/b?q",
        "s://h/a/c:d?q", "s://h/a/c:d", "s:a:b?q", "s:/c:d?", "s://h/b?q?r", "s://h/b?x/y?z", "s://h?q?r", "s:a/b?q?r#f?g", "s://h/b/./c?q", "s://h/a/../c?q",
        "s://\u{e9}\u{e9}/a", "s://\u{e9}\u{e9}/a?q", "s://h/\u{e9}/\u{fc}/d", "s://h/\u{e9}/\u{fc}/d?q#f", "s:\u{65e5}\u{672c}/\u{8a9e}/d", "s:\u{65e5}\u{672c}/\u{8a9e}/d?\u{e9}"];
    let suffixes = ["", "?", "?q", "?qq", "?r", "#", "#f", "#ff", "#g", "?q#f", "?qq#ff", "?#", "?q#", "?\u{e9}", "#\u{e9}", "?q?r", "?q?x", "?x/y?z", "?x/y", "?q?"];
    for base_s in bases2 {
        let Ok(base) = BaseIri::new(base_s.to_string()) else { continue; };
        let stem = base_s.split(['?', '#']).next().unwrap();
        for parents in 0..=2u8 {
            let rel = Relativizer::new(base.as_ref(), parents);
            for suf in suffixes {
                let iri_s = format!("{}{}", stem, suf);
                if !is_absolute_iri_ref(&iri_s) { continue; }
                n += 1;
                let r = std::panic::catch_unwind(|| rel.relativize(Iri::new_unchecked(iri_s.as_str())).map(|r| r.as_str().to_string()));
                let problem = match r {
                    Err(_) => Some("panic".to_string()),
                    Ok(None) => {
                        // None is right only if NO reference resolves to the IRI (RFC 3986: with no authority and an
                        // empty path, a base with a query cannot reach the same IRI without query): decided by brute
                        // force over all references of <= 5 characters built from the IRI's characters and "/.?#"
                        match shortest_ref(&base, &iri_s) {
                            Some(w) => Some(format!("returned None for an IRI differing from the base only in query/fragment, although {:?} resolves to it", w)),
                            None => None,
                        }
                    }
                    Ok(Some(r)) => {
                        let back: String = base.resolve(r.as_str()).map(|i| i.as_str().to_string()).unwrap_or_else(|e| format!("<resolve error {e}>"));
                        let ups = r.split('/').take_while(|s| *s == "..").count();
                        if !is_valid_iri_ref(&r) { Some(format!("result {:?} is not a valid IRI reference", r)) }
                        else if back != iri_s { Some(format!("resolve(base, {:?}) = {:?}", r, back)) }
                        else if ups > parents as usize { Some(format!("{:?} uses {} parent steps", r, ups)) }
                        else { None }
                    }
                };
                if let Some(p) = problem {
                    findings += 1;
                    println!("{{\"mismatch\":{:?},\"base\":{:?},\"iri\":{:?},\"parents\":{}}}", p, base_s, iri_s, parents);
                    if only_first { std::process::exit(1); }
                }
            }
        }
    }
    println!("{{\"ok\":{},\"pairs\":{},\"findings\":{}}}", findings == 0, n, findings);
    if findings > 0 { std::process::exit(1); }
}
