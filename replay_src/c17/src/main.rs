//! Small-domain enumerator for C17 on the real sophia_iri (release semantics are observed by catching panics):
//! bases x IRIs built from a scheme (+ optional authority) and a tail of <= 5 characters over {a, b, /, ., :, ?, #};
//! parents in 0..=2.  For every pair where both are valid absolute IRIs:
//!   relativize(iri) = Some(r)  =>  r is a valid IRI reference, base.resolve(r) == iri, r has <= parents leading "../"
//!   iri equal to base up to query/fragment => Some.
use sophia_iri::relativize::Relativizer;
use sophia_iri::resolve::BaseIri;
use sophia_iri::{is_absolute_iri_ref, is_valid_iri_ref, Iri};

fn tails(maxlen: usize) -> Vec<String> { tails_over(&['a', 'b', '/', '.', ':', '?', '#'], maxlen) }
fn tails_over(alpha: &[char], maxlen: usize) -> Vec<String> {
    let alpha = alpha.to_vec();
    let mut all = vec![String::new()];
    let mut frontier = vec![String::new()];
    for _ in 0..maxlen {
        let mut next = vec![];
        for s in &frontier { for c in alpha.iter().copied() { let mut t = s.clone(); t.push(c); next.push(t); } }
        all.extend(next.iter().cloned());
        frontier = next;
    }
    all
}

/// RFC 3986 section 5.2 (strict), written from the RFC text: used as an oracle INDEPENDENT of sophia_iri::resolve
fn split5(s: &str) -> (Option<&str>, Option<&str>, &str, Option<&str>, Option<&str>) {
    // appendix B: ^(([^:/?#]+):)?(//([^/?#]*))?([^?#]*)(\?([^#]*))?(#(.*))?
    let mut rest = s;
    let mut scheme = None;
    if let Some(i) = rest.find(|c| c == ':' || c == '/' || c == '?' || c == '#') { if rest.as_bytes()[i] == b':' && i > 0 { scheme = Some(&rest[..i]); rest = &rest[i + 1..]; } }
    let mut authority = None;
    if rest.starts_with("//") { let r2 = &rest[2..]; let e = r2.find(|c| c == '/' || c == '?' || c == '#').unwrap_or(r2.len()); authority = Some(&r2[..e]); rest = &r2[e..]; }
    let pe = rest.find(|c| c == '?' || c == '#').unwrap_or(rest.len());
    let path = &rest[..pe]; rest = &rest[pe..];
    let mut query = None;
    if rest.starts_with('?') { let e = rest.find('#').unwrap_or(rest.len()); query = Some(&rest[1..e]); rest = &rest[e..]; }
    let fragment = if rest.starts_with('#') { Some(&rest[1..]) } else { None };
    (scheme, authority, path, query, fragment)
}
fn remove_dot_segments(path: &str) -> String {
    let mut input = path.to_string();
    let mut out = String::new();
    while !input.is_empty() {
        if input.starts_with("../") { input.drain(..3); }
        else if input.starts_with("./") { input.drain(..2); }
        else if input.starts_with("/./") { input.replace_range(..3, "/"); }
        else if input == "/." { input = "/".into(); }
        else if input.starts_with("/../") { input.replace_range(..4, "/"); if let Some(i) = out.rfind('/') { out.truncate(i); } else { out.clear(); } }
        else if input == "/.." { input = "/".into(); if let Some(i) = out.rfind('/') { out.truncate(i); } else { out.clear(); } }
        else if input == "." || input == ".." { input.clear(); }
        else {
            let start = if input.starts_with('/') { 1 } else { 0 };
            let e = input[start..].find('/').map(|i| i + start).unwrap_or(input.len());
            out.push_str(&input[..e]);
            input.drain(..e);
        }
    }
    out
}
fn rfc3986_resolve(base: &str, r: &str) -> String {
    let (bs, ba, bp, bq, _) = split5(base);
    let (rs, ra, rp, rq, rf) = split5(r);
    let (ts, ta, tp, tq);
    if rs.is_some() { ts = rs; ta = ra; tp = remove_dot_segments(rp); tq = rq; }
    else {
        if ra.is_some() { ta = ra; tp = remove_dot_segments(rp); tq = rq; }
        else {
            if rp.is_empty() { tp = bp.to_string(); tq = if rq.is_some() { rq } else { bq }; }
            else {
                if rp.starts_with('/') { tp = remove_dot_segments(rp); }
                else {
                    let merged = if ba.is_some() && bp.is_empty() { format!("/{}", rp) } else { match bp.rfind('/') { Some(i) => format!("{}{}", &bp[..=i], rp), None => rp.to_string() } };
                    tp = remove_dot_segments(&merged);
                }
                tq = rq;
            }
            ta = ba;
        }
        ts = bs;
    }
    let mut out = String::new();
    if let Some(x) = ts { out.push_str(x); out.push(':'); }
    if let Some(x) = ta { out.push_str("//"); out.push_str(x); }
    out.push_str(&tp);
    if let Some(x) = tq { out.push('?'); out.push_str(x); }
    if let Some(x) = rf { out.push('#'); out.push_str(x); }
    out
}

/// the independent oracle is only used where the resolver in use (oxiri) follows RFC 3986 5.2 to the letter on the
/// unchanged tree: bases with an authority and no dot segment, references without scheme and without authority
/// (elsewhere oxiri keeps dot segments of the base / of absolute references, and treats rootless bases differently:
/// C09's subject, not C17's)
fn oracle_applies(base: &str, r: &str) -> bool {
    let (_, ba, bp, _, _) = split5(base);
    let (rs, ra, _, _, _) = split5(r);
    ba.is_some() && rs.is_none() && ra.is_none() && !bp.split('/').any(|seg| seg == "." || seg == "..")
}

fn safe_resolve(base: &BaseIri<String>, r: &str) -> String {
    match std::panic::catch_unwind(|| base.resolve(r).map(|i| i.as_str().to_string())) {
        Ok(Ok(s)) => s,
        Ok(Err(e)) => format!("<resolve error {e}>"),
        Err(_) => "<resolve panicked>".to_string(),
    }
}

fn shortest_ref(base: &BaseIri<String>, iri: &str) -> Option<String> {
    let mut alpha: Vec<char> = iri.chars().collect();
    alpha.extend(['/', '.', '?', '#']);
    alpha.sort();
    alpha.dedup();
    let mut frontier = vec![String::new()];
    for _ in 0..=5 {
        let mut next = vec![];
        for s in &frontier {
            if is_valid_iri_ref(s) {
                // (a resolver that panics on a valid reference is reported by family 3; here it simply does not count)
                let r = std::panic::catch_unwind(|| base.resolve(s.as_str()).ok().map(|r| r.as_str().to_string())).unwrap_or(None);
                if r.as_deref() == Some(iri) { return Some(s.clone()); }
                if oracle_applies(base.as_str(), s) && rfc3986_resolve(base.as_str(), s) == iri { return Some(s.clone()); }
            }
            if s.chars().count() < 5 { for c in &alpha { let mut t = s.clone(); t.push(*c); next.push(t); } }
        }
        frontier = next;
    }
    None
}

fn main() {
    std::panic::set_hook(Box::new(|_| {})); // panics of the code under check are caught and reported as mismatches
    let only_first = std::env::args().nth(1).map(|s| s == "first").unwrap_or(true);
    let prefixes = ["s:", "s://h"];
    let base_tails = ["", "/", "/a", "/a/", "/a/b", "/a/b/", "/a/b?q", "/a/b#f", "/a/b/c", "a", "a/b"];
    let ts = tails(4);
    let mut n = 0u64;
    let mut findings = 0u64;
    for pre in prefixes { for bt in base_tails {
        let base_s = format!("{}{}", pre, bt);
        if !is_absolute_iri_ref(&base_s) { continue; }
        let Ok(base) = BaseIri::new(base_s.clone()) else { continue; };
        for parents in 0..=2u8 {
            let rel = Relativizer::new(base.as_ref(), parents);
            for t in &ts {
                let iri_s = format!("{}{}", pre, t);
                if !is_absolute_iri_ref(&iri_s) { continue; }
                n += 1;
                let r = std::panic::catch_unwind(|| rel.relativize(Iri::new_unchecked(iri_s.as_str())).map(|r| r.as_str().to_string()));
                let problem = match r {
                    Err(_) => Some("panic".to_string()),
                    Ok(None) => {
                        // must relativize when equal up to query/fragment
                        let cut = |s: &str| s.split(['?', '#']).next().unwrap().to_string();
                        if cut(&iri_s) == cut(&base_s) { Some("returned None for an IRI differing from the base only in query/fragment".into()) } else { None }
                    }
                    Ok(Some(r)) => {
                        if !is_valid_iri_ref(&r) { Some(format!("result {:?} is not a valid IRI reference", r)) }
                        else {
                            let back: String = safe_resolve(&base, r.as_str());
                            let ups = r.split('/').take_while(|s| *s == "..").count();
                            let rfc = rfc3986_resolve(&base_s, &r);
                            if oracle_applies(&base_s, &r) && rfc != iri_s { Some(format!("RFC 3986 5.2 resolves {:?} to {:?} (sophia_iri::resolve gives {:?})", r, rfc, back)) }
                            else if back != iri_s { Some(format!("resolve(base, {:?}) = {:?}", r, back)) }
                            else if ups > parents as usize { Some(format!("{:?} uses {} parent steps", r, ups)) }
                            else { None }
                        }
                    }
                };
                if let Some(p) = problem {
                    findings += 1;
                    println!("{{\"mismatch\":{:?},\"base\":{:?},\"iri\":{:?},\"parents\":{}}}", p, base_s, iri_s, parents);
                    if only_first { std::process::exit(1); }
                }
            }
        }
    }}
    // family 2 (completeness clause): IRIs equal to the base up to query / fragment, with longer queries and
    // fragments than the tails above reach, bases with an empty path, and non-ASCII characters before the cut
    let bases2 = ["s://h/a/b/c/d", "s://h/a/b/c/d?q", "s://h/a/b/c/d?q#f", "s://h/a/b/c/d#f", "s://h/a/", "s://h/a/?q", "s://h/", "s://h/?q#f",
        "s://h", "s://h?q", "s://h#f", "s://h?q#f", "s:", "s:?q", "s:?q#f", "s:#f", "s:a", "s:a?q", "s:/a?q#f", "s:a/b?q",
        "s://h/ns#", "s://h/a/b?q#", "s://h#", "s://h/a/c:d?q", "s://h/a/c:d", "s:a:b?q", "s:/c:d?", "s://h/b?q?r", "s://h/b?x/y?z", "s://h?q?r", "s:a/b?q?r#f?g", "s://h/b/./c?q", "s://h/a/../c?q",
        "s://\u{e9}\u{e9}/a", "s://\u{e9}\u{e9}/a?q", "s://h/\u{e9}/\u{fc}/d", "s://h/\u{e9}/\u{fc}/d?q#f", "s:\u{65e5}\u{672c}/\u{8a9e}/d", "s:\u{65e5}\u{672c}/\u{8a9e}/d?\u{e9}"];
    let suffixes = ["", "?", "?q", "?qq", "?r", "#", "#f", "#ff", "#g", "?q#f", "?qq#ff", "?#", "?q#", "?\u{e9}", "#\u{e9}", "?q?r", "?q?x", "?x/y?z", "?x/y", "?q?"];
    for base_s in bases2 {
        let Ok(base) = BaseIri::new(base_s.to_string()) else { continue; };
        let stem = base_s.split(['?', '#']).next().unwrap();
        for parents in 0..=2u8 {
            let rel = Relativizer::new(base.as_ref(), parents);
            for suf in suffixes {
                let iri_s = format!("{}{}", stem, suf);
                if !is_absolute_iri_ref(&iri_s) { continue; }
                n += 1;
                let r = std::panic::catch_unwind(|| rel.relativize(Iri::new_unchecked(iri_s.as_str())).map(|r| r.as_str().to_string()));
                let problem = match r {
                    Err(_) => Some("panic".to_string()),
                    Ok(None) => {
                        // None is right only if NO reference resolves to the IRI (RFC 3986: with no authority and an
                        // empty path, a base with a query cannot reach the same IRI without query): decided by brute
                        // force over all references of <= 5 characters built from the IRI's characters and "/.?#"
                        match shortest_ref(&base, &iri_s) {
                            Some(w) => Some(format!("returned None for an IRI differing from the base only in query/fragment, although {:?} resolves to it", w)),
                            None => None,
                        }
                    }
                    Ok(Some(r)) => {
                        let back: String = safe_resolve(&base, r.as_str());
                        let ups = r.split('/').take_while(|s| *s == "..").count();
                        let rfc = rfc3986_resolve(base_s, &r);
                        if oracle_applies(base_s, &r) && rfc != iri_s { Some(format!("RFC 3986 5.2 resolves {:?} to {:?} (sophia_iri::resolve gives {:?})", r, rfc, back)) }
                        else if !is_valid_iri_ref(&r) { Some(format!("result {:?} is not a valid IRI reference", r)) }
                        else if back != iri_s { Some(format!("resolve(base, {:?}) = {:?}", r, back)) }
                        else if ups > parents as usize { Some(format!("{:?} uses {} parent steps", r, ups)) }
                        else { None }
                    }
                };
                if let Some(p) = problem {
                    findings += 1;
                    println!("{{\"mismatch\":{:?},\"base\":{:?},\"iri\":{:?},\"parents\":{}}}", p, base_s, iri_s, parents);
                    if only_first { std::process::exit(1); }
                }
            }
        }
    }
    // family 3: sophia_iri's resolver against the independent RFC 3986 5.2 oracle, for every base of family 2 and
    // references of <= 4 characters over {a, /, ., ?, #, :} plus a few longer ones
    {
        let mut refs = tails_over(&['a', '/', '.', '?', '#', ':'], 4);
        refs.extend(["../../a", "./a/../b", "a/./b/../c", "//h2/x", "//h2", "?q#f", "s:x/../y", "../a?q#f", "a/b/c/../../d", "/../a", "/./a/.", "a/..", "a/."].iter().map(|s| s.to_string()));
        for base_s in bases2 {
            let Ok(base) = BaseIri::new(base_s.to_string()) else { continue; };
            for r in &refs {
                if !is_valid_iri_ref(r) || !oracle_applies(base_s, r) { continue; }
                n += 1;
                let want = rfc3986_resolve(base_s, r);
                let got = std::panic::catch_unwind(|| base.resolve(r.as_str()).map(|i| i.as_str().to_string()));
                let bad = match got { Err(_) => Some("panic".to_string()), Ok(Err(e)) => if is_absolute_iri_ref(&want) && is_valid_iri_ref(&want) { Some(format!("error {}", e)) } else { None }, Ok(Ok(g)) => if g != want { Some(format!("{:?}", g)) } else { None } };
                if let Some(b) = bad {
                    findings += 1;
                    println!("{{\"mismatch\":\"BaseIri::resolve differs from RFC 3986 5.2\",\"base\":{:?},\"reference\":{:?},\"got\":{:?},\"rfc\":{:?}}}", base_s, r, b, want);
                    if only_first { std::process::exit(1); }
                }
            }
        }
    }
    println!("{{\"ok\":{},\"pairs\":{},\"findings\":{}}}", findings == 0, n, findings);
    if findings > 0 { std::process::exit(1); }
}
