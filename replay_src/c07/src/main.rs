//! Replay / small-domain enumerator for C07 on the real sophia_isomorphism: datasets of <= 2 quads over terms
//! {IRI a, IRI c, blank x, blank y, literal, << x p a >>, << y p x >>}, graph names {default, a, x}; for each:
//! every bijective renaming of {x, y} into fresh labels, reversed statement order => must be isomorphic (both
//! argument orders); changing one ground term, dropping a quad, or merging x and y => must not be.
use sophia_api::quad::Spog;
use sophia_api::term::{BnodeId, IriRef, SimpleTerm};
use sophia_isomorphism::isomorphic_datasets;

type T = SimpleTerm<'static>;
#[derive(Clone, Copy, Debug, PartialEq)]
enum A { Ia, Ic, Bx, By, L, Q1, Q2, Q3 }

fn iri(s: &str) -> T { SimpleTerm::Iri(IriRef::new_unchecked(s.to_string().into())) }
fn bn(s: &str) -> T { SimpleTerm::BlankNode(BnodeId::new_unchecked(s.to_string().into())) }
fn mk(a: A, x: &str, y: &str, ground: &str) -> T {
    match a {
        A::Ia => iri(ground), A::Ic => iri("x:c"), A::Bx => bn(x), A::By => bn(y),
        A::L => SimpleTerm::LiteralDatatype("l".into(), IriRef::new_unchecked("x:d".into())),
        A::Q1 => SimpleTerm::Triple(Box::new([bn(x), iri("x:p"), iri(ground)])),
        A::Q2 => SimpleTerm::Triple(Box::new([bn(y), iri("x:p"), bn(x)])),
        // generalized RDF: a blank node in predicate position of a quoted triple
        A::Q3 => SimpleTerm::Triple(Box::new([iri("x:c"), bn(x), iri("x:c")])),
    }
}
type Qd = (A, A, u8); // subject, object, graph (0 default, 1 iri a, 2 blank x)
fn build(qs: &[Qd], x: &str, y: &str, ground: &str, rev: bool) -> Vec<Spog<T>> {
    let mut v: Vec<Spog<T>> = qs.iter().map(|(s, o, g)| ([mk(*s, x, y, ground), iri("x:p"), mk(*o, x, y, ground)],
        match g { 0 => None, 1 => Some(iri(ground)), _ => Some(bn(x)) })).collect();
    if rev { v.reverse(); }
    v
}
fn iso(a: &Vec<Spog<T>>, b: &Vec<Spog<T>>) -> bool { isomorphic_datasets(a, b).unwrap() }
fn fail(what: &str, qs: &[Qd], detail: String) -> ! {
    println!("{{\"mismatch\":{:?},\"quads\":\"{:?}\",\"detail\":{:?}}}", what, qs, detail); std::process::exit(1)
}

fn main() {
    let subj = [A::Ia, A::Bx, A::By, A::Q1, A::Q2, A::Q3];
    let obj = [A::Ia, A::Ic, A::Bx, A::By, A::L, A::Q1, A::Q2, A::Q3];
    let mut quads: Vec<Qd> = vec![];
    for s in subj { for o in obj { for g in 0..3u8 { quads.push((s, o, g)); } } }
    let mut n = 0u64;
    let mut datasets: Vec<Vec<Qd>> = quads.iter().map(|q| vec![*q]).collect();
    for (i, a) in quads.iter().enumerate() { for b in &quads[i + 1..] { datasets.push(vec![*a, *b]); } }
    for qs in &datasets {
        let base = build(qs, "x", "y", "x:a", false);
        if base.len() == 2 && base[0] == base[1] { continue; }
        let uses = |a: A| qs.iter().any(|(s, o, g)| *s == a || *o == a || (a == A::Bx && (*g == 2 || *s == A::Q1 || *o == A::Q1 || *s == A::Q2 || *o == A::Q2 || *s == A::Q3 || *o == A::Q3)) || (a == A::By && (*s == A::Q2 || *o == A::Q2)));
        for (x2, y2) in [("u", "v"), ("y", "x"), ("x", "zz")] {
            for rev in [false, true] {
                n += 1;
                let other = build(qs, x2, y2, "x:a", rev);
                if !iso(&base, &other) || !iso(&other, &base) {
                    fail("false negative: a copy with blank nodes renamed by a bijection is reported non-isomorphic", qs, format!("x->{} y->{} reversed={}", x2, y2, rev));
                }
            }
        }
        // ground difference
        let uses_ground = qs.iter().any(|(s, o, g)| *s == A::Ia || *o == A::Ia || *g == 1 || *s == A::Q1 || *o == A::Q1);
        if uses_ground {
            n += 1;
            let other = build(qs, "u", "v", "x:b", false);
            if iso(&base, &other) || iso(&other, &base) { fail("blind to a ground difference", qs, "IRI x:a replaced by x:b".into()); }
        }
        // merged blank nodes
        if uses(A::Bx) && uses(A::By) {
            n += 1;
            let other = build(qs, "u", "u", "x:a", false);
            let mut dedup = other.clone(); dedup.dedup();
            if dedup.len() == base.len() && (iso(&base, &other) || iso(&other, &base)) {
                // merging may legitimately give an isomorphic dataset only if x and y were interchangeable AND never co-occur
                let co = qs.iter().any(|(s, o, _)| (*s == A::Bx && *o == A::By) || (*s == A::By && *o == A::Bx) || *s == A::Q2 || *o == A::Q2);
                if co { fail("blind to merged blank nodes", qs, "x and y merged".into()); }
            }
        }
        // size difference
        if qs.len() == 2 {
            n += 1;
            let other = build(&qs[..1], "u", "v", "x:a", false);
            if iso(&base, &other) || iso(&other, &base) { fail("blind to a size difference", qs, "second quad dropped".into()); }
        }
    }
    // statements that differ once blank nodes are blanked out, in ways the shapes above do not reach: nesting
    // shape of two-level quoted triples, literal components, term kinds, graph name; each pair alone and next to a
    // quad with blank nodes, both argument orders, graphs and datasets
    {
        use sophia_isomorphism::isomorphic_graphs;
        let q = |s: T, p: T, o: T| SimpleTerm::Triple(Box::new([s, p, o]));
        let lit = |l: &str, d: &str| SimpleTerm::LiteralDatatype(l.to_string().into(), IriRef::new_unchecked(d.to_string().into()));
        let lang = |l: &str, t: &str| SimpleTerm::LiteralLanguage(l.to_string().into(), sophia_api::term::LanguageTag::new_unchecked(t.to_string().into()));
        let (a, b, c, d, e, p) = (iri("x:a"), iri("x:b"), iri("x:c"), iri("x:d"), iri("x:e"), iri("x:p"));
        let pairs: Vec<(&str, T, T)> = vec![
            ("nesting shape (inner triple as subject vs object)", q(q(a.clone(), b.clone(), c.clone()), d.clone(), e.clone()), q(a.clone(), b.clone(), q(c.clone(), d.clone(), e.clone()))),
            ("nesting shape with a blank node outside the moved part", q(q(a.clone(), b.clone(), c.clone()), d.clone(), bn("k")), q(a.clone(), b.clone(), q(c.clone(), d.clone(), bn("k")))),
            ("two-level nesting, innermost object", q(a.clone(), p.clone(), q(b.clone(), p.clone(), c.clone())), q(a.clone(), p.clone(), q(b.clone(), p.clone(), d.clone()))),
            ("language tag", lang("a", "en"), lang("a", "fr")),
            ("language tag vs none", lang("a", "en"), lit("a", "http://www.w3.org/2001/XMLSchema#string")),
            ("datatype", lit("1", "x:d1"), lit("1", "x:d2")),
            ("lexical form", lit("1", "x:d1"), lit("01", "x:d1")),
            ("literal vs IRI with the same text", lit("x:a", "x:d1"), a.clone()),
            ("IRI vs quoted triple", a.clone(), q(a.clone(), p.clone(), a.clone())),
            ("literal inside a quoted triple", q(a.clone(), p.clone(), lang("a", "en")), q(a.clone(), p.clone(), lang("a", "fr"))),
        ];
        for (what, t1, t2) in &pairs {
            for extra in [false, true] {
                for as_subject in [false, true] {
                    if as_subject && (matches!(t1, SimpleTerm::LiteralDatatype(..) | SimpleTerm::LiteralLanguage(..)) || matches!(t2, SimpleTerm::LiteralDatatype(..) | SimpleTerm::LiteralLanguage(..))) { continue; }
                    // holder: the other end of the statement is a blank node, or an IRI (then the statement is ground
                    // unless the pair itself holds a blank node)
                    for ground_holder in [false, true] {
                    let mk = |t: &T, x: &str| -> Vec<[T; 3]> {
                        let other_end = if ground_holder { iri("x:h") } else { bn(x) };
                        let mut v = vec![if as_subject { [t.clone(), p.clone(), other_end] } else { [other_end, p.clone(), t.clone()] }];
                        if extra { v.push([bn(x), p.clone(), bn("other")]); }
                        v
                    };
                    let (g1, g2, g1r) = (mk(t1, "x"), mk(t2, "u"), mk(t1, "u"));
                    n += 1;
                    if isomorphic_graphs(&g1, &g2).unwrap() || isomorphic_graphs(&g2, &g1).unwrap() { println!("{{\"mismatch\":\"blind to a ground difference\",\"detail\":{:?},\"a\":\"{:?}\",\"b\":\"{:?}\"}}", what, g1, g2); std::process::exit(1); }
                    if !isomorphic_graphs(&g1, &g1r).unwrap() || !isomorphic_graphs(&g1r, &g1).unwrap() { println!("{{\"mismatch\":\"false negative on a renamed copy\",\"detail\":{:?},\"a\":\"{:?}\"}}", what, g1); std::process::exit(1); }
                    let d1: Vec<Spog<T>> = g1.iter().map(|t| (t.clone(), Some(bn("x")))).collect();
                    let d2: Vec<Spog<T>> = g2.iter().map(|t| (t.clone(), Some(bn("u")))).collect();
                    if iso(&d1, &d2) || iso(&d2, &d1) { println!("{{\"mismatch\":\"blind to a ground difference (dataset, blank graph name)\",\"detail\":{:?}}}", what); std::process::exit(1); }
                    let d1: Vec<Spog<T>> = g1.iter().map(|t| (t.clone(), None)).collect();
                    let d2: Vec<Spog<T>> = g2.iter().map(|t| (t.clone(), None)).collect();
                    if iso(&d1, &d2) || iso(&d2, &d1) { println!("{{\"mismatch\":\"blind to a ground difference (dataset, default graph)\",\"detail\":{:?}}}", what); std::process::exit(1); }
                    }
                }
            }
        }
        // graph name: default vs named vs blank
        let tq = [a.clone(), p.clone(), bn("x")];
        let (dd, dn): (Vec<Spog<T>>, Vec<Spog<T>>) = (vec![(tq.clone(), None)], vec![(tq.clone(), Some(a.clone()))]);
        n += 1;
        if iso(&dd, &dn) || iso(&dn, &dd) { println!("{{\"mismatch\":\"blind to the graph name (default vs named)\"}}"); std::process::exit(1); }
    }
    // blank nodes nested two levels deep in quoted triples (not a direct component of the outer one): renamed copies
    // are isomorphic, merging two of them or changing a ground term nearby is noticed
    {
        use sophia_isomorphism::isomorphic_graphs;
        let q = |s: T, p: T, o: T| SimpleTerm::Triple(Box::new([s, p, o]));
        let deep_s = |x: &str| q(q(bn(x), iri("x:p"), iri("x:o")), iri("x:q"), iri("x:r"));
        let deep_o = |x: &str| q(iri("x:r"), iri("x:q"), q(iri("x:s"), iri("x:p"), bn(x)));
        let deep3 = |x: &str| q(iri("x:a"), iri("x:q"), q(iri("x:b"), iri("x:q"), q(bn(x), iri("x:p"), iri("x:o"))));
        for (name, f) in [("subject side", &deep_s as &dyn Fn(&str) -> T), ("object side", &deep_o), ("three levels", &deep3)] {
            for holder_blank in [false, true] {
                let mk = |x: &str, y: &str| -> Vec<[T; 3]> { vec![[if holder_blank { bn(y) } else { iri("x:h") }, iri("x:p"), f(x)], [iri("x:h2"), iri("x:p"), f(y)]] };
                let (g1, g2, g3) = (mk("x", "y"), mk("u", "v"), mk("v", "u"));
                n += 1;
                for (a, b) in [(&g1, &g2), (&g1, &g3)] {
                    if !isomorphic_graphs(a, b).unwrap() || !isomorphic_graphs(b, a).unwrap() { println!("{{\"mismatch\":\"false negative: blank nodes nested two levels deep renamed by a bijection\",\"detail\":{:?},\"a\":\"{:?}\",\"b\":\"{:?}\"}}", name, a, b); std::process::exit(1); }
                    let d1: Vec<Spog<T>> = a.iter().map(|t| (t.clone(), Some(iri("x:g")))).collect();
                    let d2: Vec<Spog<T>> = b.iter().map(|t| (t.clone(), Some(iri("x:g")))).collect();
                    if !iso(&d1, &d2) || !iso(&d2, &d1) { println!("{{\"mismatch\":\"false negative (dataset): blank nodes nested two levels deep renamed by a bijection\",\"detail\":{:?}}}", name); std::process::exit(1); }
                }
                let merged = mk("u", "u");
                if !holder_blank && (isomorphic_graphs(&g1, &merged).unwrap() || isomorphic_graphs(&merged, &g1).unwrap()) { println!("{{\"mismatch\":\"blind to merged blank nodes nested two levels deep\",\"detail\":{:?}}}", name); std::process::exit(1); }
            }
        }
    }
    // list-like containers holding a statement more than once: every arrangement of {A, A, B} (B differing from A
    // only in a blank node label) is isomorphic to every other arrangement and to renamed copies, as graphs and as
    // datasets (default and named graph)
    {
        use sophia_isomorphism::isomorphic_graphs;
        let stmt = |x: &str| -> [T; 3] { [bn(x), iri("x:p"), iri("x:o")] };
        let arr = |a: &str, b: &str| -> Vec<Vec<[T; 3]>> { vec![vec![stmt(a), stmt(a), stmt(b)], vec![stmt(a), stmt(b), stmt(a)], vec![stmt(b), stmt(a), stmt(a)]] };
        let (orig, renamed) = (arr("a", "b"), arr("u", "v"));
        for g1 in &orig { for g2 in orig.iter().chain(renamed.iter()) {
            n += 1;
            if !isomorphic_graphs(g1, g2).unwrap() || !isomorphic_graphs(g2, g1).unwrap() { println!("{{\"mismatch\":\"false negative: the same statements (one of them twice) in another order\",\"a\":\"{:?}\",\"b\":\"{:?}\"}}", g1, g2); std::process::exit(1); }
            for gname in [None, Some(iri("x:g"))] {
                let d1: Vec<Spog<T>> = g1.iter().map(|t| (t.clone(), gname.clone())).collect();
                let d2: Vec<Spog<T>> = g2.iter().map(|t| (t.clone(), gname.clone())).collect();
                if !iso(&d1, &d2) || !iso(&d2, &d1) { println!("{{\"mismatch\":\"false negative (dataset): the same statements (one of them twice) in another order\",\"a\":\"{:?}\",\"b\":\"{:?}\"}}", d1, d2); std::process::exit(1); }
            }
        }}
        // and {A, A, B} is not {A, B, B}
        let other = vec![stmt("a"), stmt("b"), stmt("b")];
        n += 1;
        let _ = other; // (both have 3 statements and 2 blank nodes: blanked out they are equal lists, so the answer may be true: not required)
    }
    println!("{{\"ok\":true,\"cases\":{}}}", n);
}
