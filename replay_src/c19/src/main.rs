//! Replay for C19 on the real LocalLoader with a real directory tree:
//!   <tmp>/root/in.ttl      (inside the configured directory)
//!   <tmp>/secret.ttl       (outside)
//! For a list of IRIs under the namespace x:/ the loader must never return the content of secret.ttl.
use sophia_iri::Iri;
use sophia_resource::{Loader, LocalLoader};
use std::fs;

fn main() {
    let tmp = std::env::temp_dir().join(format!("verif-c19-{}", std::process::id()));
    let root = tmp.join("root");
    fs::create_dir_all(root.join("sub")).unwrap();
    fs::write(root.join("in.ttl"), b"INSIDE").unwrap();
    fs::write(tmp.join("secret.ttl"), b"SECRET").unwrap();
    // files beside the configured directory whose names derive from it, and a sibling directory sharing its prefix
    for ext in ["ttl", "nt", "nq", "rdf", "jsonld", "trig", "xml"] { fs::write(tmp.join(format!("root.{}", ext)), b"SECRET").unwrap(); }
    fs::create_dir_all(tmp.join("root-private")).unwrap();
    fs::write(tmp.join("root-private").join("x.ttl"), b"SECRET").unwrap();
    fs::create_dir_all(tmp.join("rootsub")).unwrap();
    fs::write(tmp.join("rootsub").join("x.ttl"), b"SECRET").unwrap();
    let loader = LocalLoader::new(vec![(Iri::new_unchecked("x:/".into()), root.clone())]).unwrap();
    let abs_secret = tmp.join("secret.ttl");
    let abs_secret = abs_secret.to_str().unwrap();
    let mut iris: Vec<String> = vec![
        "x:/in.ttl".into(), "x:/in".into(), "x:/sub/../in.ttl".into(),
        "x:/../secret.ttl".into(), "x:/../secret".into(), "x:/sub/../../secret.ttl".into(), "x:/./../secret.ttl".into(),
        format!("x:/{}", abs_secret), format!("x://{}", abs_secret.trim_start_matches('/')),
        "x:/..%2Fsecret.ttl".into(), "x:/in.ttl#../secret.ttl".into(),
        "x:/%2e%2e/secret.ttl".into(), "x:/%2E%2E%2Fsecret.ttl".into(), "x:/.%2e/secret.ttl".into(), "x:/sub%2f..%2f..%2fsecret.ttl".into(), "x:/%2e%2e/secret".into(),
    ];
    iris.push(format!("x:/sub/{}", abs_secret));
    // the namespace itself / only empty and '.' segments (extension guessing must not leave the directory)
    iris.extend(["x:/".to_string(), "x:/#f".into(), "x:/./".into(), "x:/.//".into(), "x:/.".into(), "x:/sub/..".into(), "x:/sub/../".into(), "x:/sub/.././".into(),
        "x:/-private/x.ttl".into(), "x:/sub/../../root-private/x.ttl".into(), "x:/../rootsub/x.ttl".into(), "x:/../root.ttl".into(), "x:/../root".into()]);
    let mut bad = None;
    let mut n = 0;
    for i in &iris {
        n += 1;
        if let Ok((data, _ctype)) = loader.get(Iri::new_unchecked(i.as_str())) {
            if data == b"SECRET" { bad = Some(i.clone()); break; }
        }
    }
    // two namespaces one of which prefixes the other (mapped to sibling dirs)
    let loader2 = LocalLoader::new(vec![(Iri::new_unchecked("y:/ns/".into()), root.clone()), (Iri::new_unchecked("y:/ns/deep/".into()), root.join("sub"))]).unwrap();
    for i in ["y:/ns", "y:/ns/", "y:/ns../secret.ttl", "y:/ns/../secret.ttl", "y:/ns-private/x.ttl", "y:/ns/deep/../../secret.ttl", "y:/ns/deep/../../../secret.ttl", "y:/ns/deep/", "y:/ns/deep",
              "y:/ns.ttl", "y:/ns/deep/../in.ttl", "y:/nssub/x.ttl", "y:/ns/../root-private/x.ttl"] {
        n += 1;
        if bad.is_none() { if let Ok((data, _)) = loader2.get(Iri::new_unchecked(i)) { if data == b"SECRET" { bad = Some(i.to_string()); } } }
    }
    // a directory given relatively must be refused, or keep designating the directory it designated when configured
    // (the working directory may change later)
    {
        let (da, db) = (tmp.join("A"), tmp.join("B"));
        fs::create_dir_all(da.join("cache")).unwrap();
        fs::create_dir_all(db.join("cache")).unwrap();
        fs::write(da.join("cache").join("doc.ttl"), b"INSIDE").unwrap();
        fs::write(db.join("cache").join("doc.ttl"), b"SECRET").unwrap();
        let back = std::env::current_dir().unwrap();
        for rel in ["cache", "./cache", "../A/cache"] {
            std::env::set_current_dir(&da).unwrap();
            let made = LocalLoader::new(vec![(Iri::new_unchecked("z:/".into()), std::path::PathBuf::from(rel))]);
            std::env::set_current_dir(&db).unwrap();
            if let Ok(l) = made {
                for i in ["z:/doc.ttl", "z:/doc", "z:/doc.ttl#f"] {
                    n += 1;
                    if bad.is_none() { if let Ok((data, _)) = l.get(Iri::new_unchecked(i)) { if data == b"SECRET" { bad = Some(format!("{} (directory configured as {:?} relative to another working directory)", i, rel)); } } }
                }
            }
        }
        std::env::set_current_dir(&back).unwrap();
    }
    let ok_inside = loader.get(Iri::new_unchecked("x:/in.ttl")).map(|(d, _)| d == b"INSIDE").unwrap_or(false);
    let _ = fs::remove_dir_all(&tmp);
    if let Some(i) = bad {
        println!("{{\"mismatch\":\"LocalLoader returned the content of a file outside its configured directory\",\"iri\":{:?}}}", i);
        std::process::exit(1);
    }
    if !ok_inside {
        println!("{{\"mismatch\":\"a file inside the configured directory is no longer served\",\"iri\":\"x:/in.ttl\"}}");
        std::process::exit(1);
    }
    println!("{{\"ok\":true,\"iris\":{}}}", n);
}
