//! Replay / small-domain enumerator for C20 on the real sophia_api.
use sophia_api::term::{IriRef, SimpleTerm, Term, TryFromTerm};

fn is_xsd_integer(s: &str) -> bool {
    let b = s.as_bytes();
    let d = if !b.is_empty() && (b[0] == b'-' || b[0] == b'+') { &b[1..] } else { b };
    !d.is_empty() && d.iter().all(|c| c.is_ascii_digit())
}
fn is_xsd_double(s: &str) -> bool {
    if s == "INF" || s == "-INF" || s == "+INF" || s == "NaN" { return true; }
    let b = s.as_bytes();
    let mut i = 0;
    if i < b.len() && (b[i] == b'-' || b[i] == b'+') { i += 1; }
    let mut digits = 0;
    while i < b.len() && b[i].is_ascii_digit() { i += 1; digits += 1; }
    if i < b.len() && b[i] == b'.' { i += 1; while i < b.len() && b[i].is_ascii_digit() { i += 1; digits += 1; } }
    if digits == 0 { return false; }
    if i < b.len() && (b[i] == b'e' || b[i] == b'E') {
        i += 1;
        if i < b.len() && (b[i] == b'-' || b[i] == b'+') { i += 1; }
        let mut ed = 0;
        while i < b.len() && b[i].is_ascii_digit() { i += 1; ed += 1; }
        if ed == 0 { return false; }
    }
    i == b.len()
}
fn fail(what: String) -> ! { println!("{{\"mismatch\":{:?}}}", what); std::process::exit(1) }

fn lit(lex: &str, dt: &str) -> SimpleTerm<'static> {
    SimpleTerm::LiteralDatatype(lex.to_string().into(), IriRef::new_unchecked(dt.to_string().into()))
}

fn main() {
    let xsd = "http://www.w3.org/2001/XMLSchema#";
    let mut n = 0u64;
    let mut ints: Vec<i64> = (-1000..=1000).collect();
    for p in 0..=18 { let t = 10i64.pow(p); ints.extend([t - 1, t, t + 1, -t + 1, -t, -t - 1]); }
    ints.extend([i32::MIN as i64, i32::MAX as i64, i64::MIN, i64::MAX]);
    for v in &ints {
        n += 1;
        if let Ok(x) = i32::try_from(*v) {
            let lf = x.lexical_form().unwrap();
            if !is_xsd_integer(&lf) { fail(format!("i32 {} lexical form {:?} not in xsd:integer", x, lf)); }
            if x.datatype().unwrap().as_str() != format!("{}integer", xsd) { fail(format!("i32 datatype")); }
            if i32::try_from_term(x).ok() != Some(x) { fail(format!("i32 {} does not round-trip", x)); }
            if i32::try_from_term(lit(&lf, &format!("{}integer", xsd))).ok() != Some(x) { fail(format!("i32 {} does not round-trip through SimpleTerm", x)); }
        }
        let x = *v as isize;
        let lf = x.lexical_form().unwrap();
        if !is_xsd_integer(&lf) { fail(format!("isize {} lexical form {:?}", x, lf)); }
        if isize::try_from_term(x).ok() != Some(x) { fail(format!("isize {} does not round-trip", x)); }
        if *v >= 0 {
            let x = *v as usize;
            let lf = x.lexical_form().unwrap();
            if !is_xsd_integer(&lf) { fail(format!("usize {} lexical form {:?}", x, lf)); }
            if usize::try_from_term(x).ok() != Some(x) { fail(format!("usize {} does not round-trip", x)); }
        }
    }
    if usize::try_from_term(usize::MAX).ok() != Some(usize::MAX) { fail("usize::MAX".into()); }
    for b in [true, false] {
        let lf = b.lexical_form().unwrap();
        if &lf[..] != if b { "true" } else { "false" } { fail(format!("bool {} lexical form {:?}", b, lf)); }
        if bool::try_from_term(b).ok() != Some(b) { fail(format!("bool {} round trip", b)); }
    }
    let fs = [0.0f64, -0.0, 1.0, -1.5, 0.1, 1e300, 1e-300, 5e-324, f64::MAX, f64::MIN, f64::MIN_POSITIVE, f64::EPSILON, 123456789.123456789,
              1e21, 1e-7, f64::INFINITY, f64::NEG_INFINITY, f64::NAN, 9007199254740993.0, 0.30000000000000004];
    for x in fs {
        n += 1;
        let lf = x.lexical_form().unwrap();
        if !is_xsd_double(&lf) { fail(format!("f64 {:?} lexical form {:?} is not in the xsd:double lexical space", x, lf)); }
        match f64::try_from_term(x) {
            Ok(y) => if !(y == x && y.is_sign_negative() == x.is_sign_negative() || (x.is_nan() && y.is_nan())) { fail(format!("f64 {:?} round-trips to {:?}", x, y)); },
            Err(e) => fail(format!("f64 {:?} does not parse back: {}", x, e)),
        }
    }
    // finite doubles at large: 200000 pseudo-random bit patterns (xorshift64, fixed seed), a 17-significant-digit
    // mantissa at every decimal exponent, and neighbours of powers of two and ten
    let mut more: Vec<f64> = vec![];
    let mut st: u64 = 0x9E3779B97F4A7C15;
    for _ in 0..200000 { st ^= st << 13; st ^= st >> 7; st ^= st << 17; more.push(f64::from_bits(st)); }
    for k in -323..=308i32 { let v: f64 = format!("1.2345678901234567e{}", k).parse().unwrap(); more.push(v); more.push(-v); }
    for k in -1074..=1023i32 { let v = 2f64.powi(k); more.push(v); more.push(f64::from_bits(v.to_bits() + 1)); if v.to_bits() > 0 { more.push(f64::from_bits(v.to_bits() - 1)); } }
    for x in more {
        if x.is_nan() { continue; }
        n += 1;
        let lf = x.lexical_form().unwrap();
        if !is_xsd_double(&lf) { fail(format!("f64 {:?} (bits {:#x}) lexical form {:?} is not in the xsd:double lexical space", x, x.to_bits(), lf)); }
        match f64::try_from_term(x) {
            Ok(y) => if y.to_bits() != x.to_bits() { fail(format!("f64 {:?} (bits {:#x}) round-trips to {:?} (lexical form {:?})", x, x.to_bits(), y, lf)); },
            Err(e) => fail(format!("f64 {:?} does not parse back: {}", x, e)),
        }
        match f64::try_from_term(lit(&lf, &format!("{}double", xsd))) {
            Ok(y) => if y.to_bits() != x.to_bits() { fail(format!("f64 {:?} (bits {:#x}) round-trips through its literal {:?} to {:?}", x, x.to_bits(), lf, y)); },
            Err(e) => fail(format!("f64 literal {:?} does not parse back: {}", lf, e)),
        }
    }
    // special and boundary lexical forms: success only with the denoted value, never for a form outside the
    // datatype's lexical space, never a wrapped-around value
    let dbl = format!("{}double", xsd); let flt = format!("{}float", xsd); let dec = format!("{}decimal", xsd); let int = format!("{}integer", xsd);
    let f_ok: &[(&str, f64)] = &[("INF", f64::INFINITY), ("-INF", f64::NEG_INFINITY), ("+INF", f64::INFINITY), ("1e5", 1e5), ("1E5", 1e5), ("1.", 1.0), (".5", 0.5), ("+1", 1.0), ("-0", -0.0), ("0.1", 0.1)];
    for dt in [&dbl, &flt] {
        for (lf, v) in f_ok {
            n += 1;
            match f64::try_from_term(lit(lf, dt)) { Ok(y) if y.to_bits() == v.to_bits() => {}, r => fail(format!("f64::try_from_term({:?}^^{}) = {:?}, the lexical form denotes {:?}", lf, dt, r, v)) }
        }
        n += 1;
        match f64::try_from_term(lit("NaN", dt)) { Ok(y) if y.is_nan() => {}, r => fail(format!("f64::try_from_term(NaN^^{}) = {:?}", dt, r)) }
        for lf in ["inf", "infinity", "Infinity", "INFINITY", "nan", "NAN", "Nan", "-inf", "+infinity", "-Infinity", "", "1e", " 1", "1 ", "0x10", "1_0", "+NaN", "-NaN", "+nan", "-nan", "++1", "+-1", "INF ", "-INFINITY", "+Inf", "NaN1", "1NaN", "e5", ".", "+", "-", "+.", "1e+", "1.5.2", "1,5", "١"] {
            n += 1;
            if let Ok(y) = f64::try_from_term(lit(lf, dt)) { fail(format!("f64::try_from_term({:?}^^{}) succeeds with {:?} although the form is outside the lexical space", lf, dt, y)); }
        }
    }
    for (lf, v) in [("1.5", 1.5f64), ("-0.25", -0.25), ("+3", 3.0), ("10", 10.0)] {
        n += 1;
        match f64::try_from_term(lit(lf, &dec)) { Ok(y) if y == v => {}, r => fail(format!("f64::try_from_term({:?}^^xsd:decimal) = {:?}", lf, r)) }
    }
    for lf in ["1e5", "1E0", "INF", "-INF", "NaN", "inf", "nan", ""] {
        n += 1;
        if let Ok(y) = f64::try_from_term(lit(lf, &dec)) { fail(format!("f64::try_from_term({:?}^^xsd:decimal) succeeds with {:?} although the form is outside the lexical space of xsd:decimal", lf, y)); }
    }
    let i_cases: &[(&str, Option<i128>)] = &[("2147483647", Some(2147483647)), ("2147483648", Some(2147483648)), ("-2147483648", Some(-2147483648)), ("-2147483649", Some(-2147483649)),
        ("4294967297", Some(4294967297)), ("9223372036854775807", Some(9223372036854775807)), ("9223372036854775808", Some(9223372036854775808)), ("-9223372036854775808", Some(-9223372036854775808)),
        ("-9223372036854775809", Some(-9223372036854775809)), ("18446744073709551615", Some(18446744073709551615)), ("18446744073709551616", Some(18446744073709551616)), ("-1", Some(-1)), ("+5", Some(5)),
        ("007", Some(7)), ("-0", Some(0)), ("99999999999999999999999999", Some(99999999999999999999999999)), ("", None), ("5.0", None), ("1e3", None), (" 5", None), ("0x10", None), ("٥", None)];
    for (lf, v) in i_cases {
        n += 1;
        let want32 = v.and_then(|x| i32::try_from(x).ok());
        let got32 = i32::try_from_term(lit(lf, &int)).ok();
        if got32.is_some() && got32 != want32 { fail(format!("i32::try_from_term({:?}^^xsd:integer) = {:?}, the lexical form denotes {:?}", lf, got32, v)); }
        let wanti = v.and_then(|x| isize::try_from(x).ok());
        let goti = isize::try_from_term(lit(lf, &int)).ok();
        if goti.is_some() && goti != wanti { fail(format!("isize::try_from_term({:?}^^xsd:integer) = {:?}, the lexical form denotes {:?}", lf, goti, v)); }
        let wantu = v.and_then(|x| usize::try_from(x).ok());
        let gotu = usize::try_from_term(lit(lf, &int)).ok();
        if gotu.is_some() && gotu != wantu { fail(format!("usize::try_from_term({:?}^^xsd:integer) = {:?}, the lexical form denotes {:?}", lf, gotu, v)); }
    }
    // xsd:boolean: the lexical space is {true, false, 1, 0}
    let boolean = format!("{}boolean", xsd);
    for (lf, v) in [("true", Some(true)), ("false", Some(false)), ("1", Some(true)), ("0", Some(false)), ("2", None), ("10", None), ("255", None), ("007", None), ("01", None), ("00", None), ("+1", None), ("+0", None), ("-0", None),
                    ("True", None), ("TRUE", None), ("False", None), ("yes", None), ("", None), (" true", None), ("true ", None), ("t", None), ("1.0", None)] {
        n += 1;
        match (bool::try_from_term(lit(lf, &boolean)).ok(), v) {
            (Some(got), Some(want)) if got == want => {}
            (None, _) => {} // refusing a literal is allowed
            (got, _) => fail(format!("bool::try_from_term({:?}^^xsd:boolean) = {:?}, the lexical form denotes {:?}", lf, got, v)),
        }
    }
    for dt in [&int, &dbl] {
        n += 1;
        if let Ok(b) = bool::try_from_term(lit("true", dt)) { fail(format!("bool::try_from_term(\"true\"^^{}) succeeds with {}", dt, b)); }
    }
    // conversions never panic, whatever the datatype IRI: non-ASCII IRIs of the same byte lengths as the XSD datatype
    // IRIs (36..=44 bytes), with a multi-byte character at every offset from the end; and they fail (wrong datatype)
    {
        let mut dts: Vec<String> = vec![];
        for total in 34..=46usize { for ch in ["\u{e9}", "\u{6574}", "\u{10400}"] { for tail in 0..12usize {
            let clen = ch.len();
            if total < 9 + clen + tail { continue; }
            let head = total - clen - tail;
            let mut s = String::from("http://e/");
            while s.len() < head { s.push('a'); }
            if s.len() != head { continue; }
            s.push_str(ch);
            for _ in 0..tail { s.push('z'); }
            dts.push(s);
        }}}
        for dt in &dts {
            n += 1;
            let t = lit("1", dt);
            let r = std::panic::catch_unwind(|| {
                (i32::try_from_term(t.clone()).is_ok(), isize::try_from_term(t.clone()).is_ok(), usize::try_from_term(t.clone()).is_ok(), f64::try_from_term(t.clone()).is_ok(), bool::try_from_term(lit("true", dt)).is_ok())
            });
            match r {
                Err(_) => fail(format!("try_from_term panics on a literal with datatype <{}> ({} bytes)", dt, dt.len())),
                Ok(flags) => if flags != (false, false, false, false, false) { fail(format!("try_from_term succeeds on a literal with the foreign datatype <{}>: {:?}", dt, flags)); },
            }
        }
    }
    // short lexical forms
    let alpha = [b'0', b'1', b'9', b'+', b'-', b' ', b'a', b'.'];
    for a in alpha { for b in alpha { for len in 0..=2usize {
        n += 1;
        let bytes = [a, b];
        let s = std::str::from_utf8(&bytes[..len]).unwrap();
        let r = i32::try_from_term(lit(s, &format!("{}integer", xsd)));
        let want: Option<i32> = if is_xsd_integer(s) { s.trim_start_matches('+').parse().ok() } else { None };
        if r.ok() != want { fail(format!("i32::try_from_term({:?}) != {:?}", s, want)); }
        if i32::try_from_term(lit(s, &format!("{}string", xsd))).is_ok() { fail(format!("i32 from xsd:string {:?} accepted", s)); }
    }}}
    println!("{{\"ok\":true,\"cases\":{}}}", n);
}
