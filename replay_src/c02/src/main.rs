//! Replay / small-domain enumerator for C02 on the real sophia_api: a pool of SimpleTerms (all kinds, tags in
//! several cases, nested quoted triples), the same terms as NsTerm / native / &T / borrowed forms; all pairs and
//! triples: eq is an equivalence consistent across representations, cmp is a total order with Equal <=> eq and
//! blank < IRI < literal < triple < variable, equal terms hash identically (std DefaultHasher).
use sophia_api::ns::Namespace;
use sophia_api::term::{BnodeId, IriRef, LanguageTag, SimpleTerm, Term, TermKind, VarName};
use std::cmp::Ordering;
use std::collections::hash_map::DefaultHasher;
use std::hash::Hasher;

type T = SimpleTerm<'static>;
fn iri(s: &str) -> T { SimpleTerm::Iri(IriRef::new_unchecked(s.to_string().into())) }
fn pool() -> Vec<T> {
    let mut v = vec![
        iri("x:a"), iri("x:b"), iri("x:ab"),
        SimpleTerm::BlankNode(BnodeId::new_unchecked("a".into())), SimpleTerm::BlankNode(BnodeId::new_unchecked("b".into())),
        SimpleTerm::LiteralDatatype("a".into(), IriRef::new_unchecked("x:d".into())), SimpleTerm::LiteralDatatype("b".into(), IriRef::new_unchecked("x:d".into())),
        SimpleTerm::LiteralDatatype("a".into(), IriRef::new_unchecked("x:e".into())),
        SimpleTerm::LiteralLanguage("a".into(), LanguageTag::new_unchecked("en".into())), SimpleTerm::LiteralLanguage("a".into(), LanguageTag::new_unchecked("EN".into())),
        SimpleTerm::LiteralLanguage("a".into(), LanguageTag::new_unchecked("En-us".into())), SimpleTerm::LiteralLanguage("a".into(), LanguageTag::new_unchecked("en-US".into())),
        SimpleTerm::LiteralLanguage("b".into(), LanguageTag::new_unchecked("fr".into())),
        SimpleTerm::LiteralLanguage("a".into(), LanguageTag::new_unchecked("en-Latn-US-u-ca-gregory-x-sophia-demo-a".into())), SimpleTerm::LiteralLanguage("a".into(), LanguageTag::new_unchecked("en-Latn-US-u-ca-gregory-x-sophia-demo-b".into())),
        SimpleTerm::LiteralLanguage("a".into(), LanguageTag::new_unchecked("en-Latn-US-u-ca-gregory-x-sophia-de".into())), SimpleTerm::LiteralLanguage("a".into(), LanguageTag::new_unchecked("EN-LATN-us-u-ca-gregory-x-sophia-demo-a".into())),
        SimpleTerm::Variable(VarName::new_unchecked("a".into())), SimpleTerm::Variable(VarName::new_unchecked("b".into())),
    ];
    let q1 = SimpleTerm::Triple(Box::new([v[0].clone(), v[1].clone(), v[8].clone()]));
    let q2 = SimpleTerm::Triple(Box::new([v[0].clone(), v[1].clone(), v[9].clone()]));
    let q3 = SimpleTerm::Triple(Box::new([v[3].clone(), v[1].clone(), q1.clone()]));
    // same left-to-right atom sequence, different bracketing; a literal vs a quoted triple in the same position
    let ba = v[3].clone();
    let lit_o = v[5].clone();
    let q4 = SimpleTerm::Triple(Box::new([ba.clone(), v[0].clone(), SimpleTerm::Triple(Box::new([ba.clone(), v[1].clone(), lit_o.clone()]))]));
    let q5 = SimpleTerm::Triple(Box::new([SimpleTerm::Triple(Box::new([ba.clone(), v[0].clone(), ba.clone()])), v[1].clone(), lit_o.clone()]));
    let q6 = SimpleTerm::Triple(Box::new([ba.clone(), v[0].clone(), lit_o.clone()]));
    v.extend([q1, q2, q3, q4, q5, q6]);
    v
}
fn rank(t: &T) -> u8 { match t.kind() { TermKind::BlankNode => 0, TermKind::Iri => 1, TermKind::Literal => 2, TermKind::Triple => 3, TermKind::Variable => 4 } }
/// the hash fed to std's DefaultHasher, combined with the hash fed to a hasher that mixes in the LENGTH of every
/// write() call (hashers need not treat write(a); write(b) like write(ab): ahash, FxHasher do not)
fn h<X: Term + ?Sized>(t: &X) -> u64 {
    struct Boundary(u64);
    impl Hasher for Boundary {
        fn finish(&self) -> u64 { self.0 }
        fn write(&mut self, bytes: &[u8]) { self.0 = self.0.wrapping_mul(1099511628211).wrapping_add(0x9e37 + bytes.len() as u64); for b in bytes { self.0 = (self.0 ^ *b as u64).wrapping_mul(1099511628211); } }
    }
    let mut s = DefaultHasher::new(); t.hash(&mut s);
    let mut b = Boundary(14695981039346656037); t.hash(&mut b);
    s.finish() ^ b.finish().rotate_left(17)
}
fn fail(what: String) -> ! { println!("{{\"mismatch\":{:?}}}", what); std::process::exit(1) }

/// every provided way of converting / copying a term into another provided term type yields an equal term
/// (same kind, eq both ways, cmp Equal, same hash), also for variables and for terms nested in quoted triples
fn conversions(p: &[T]) -> u64 {
    use sophia_api::term::FromTerm;
    use sophia_term::{ArcStrStash, ArcTerm, RcStrStash, RcTerm};
    let mut n = 0u64;
    fn same<A: Term + std::fmt::Debug, B: Term + std::fmt::Debug>(how: &str, a: &A, b: &B) {
        let ok = a.kind() == b.kind() && Term::eq(a, b.borrow_term()) && Term::eq(b, a.borrow_term()) && Term::cmp(a, b.borrow_term()) == Ordering::Equal && h(a) == h(b);
        if !ok { fail(format!("{}: {:?} became {:?}", how, a, b)); }
    }
    let mut extra: Vec<T> = p.to_vec();
    // quoted triples holding a variable / a blank node with the same name / an upper-case tag, nested twice
    let var = SimpleTerm::Variable(VarName::new_unchecked("a".into()));
    let bn = SimpleTerm::BlankNode(BnodeId::new_unchecked("a".into()));
    let q = SimpleTerm::Triple(Box::new([var.clone(), iri("x:p"), bn.clone()]));
    let qq = SimpleTerm::Triple(Box::new([q.clone(), iri("x:p"), SimpleTerm::LiteralLanguage("a".into(), LanguageTag::new_unchecked("EN-Us".into()))]));
    extra.extend([q, qq, SimpleTerm::LiteralDatatype("a".into(), IriRef::new_unchecked("http://www.w3.org/1999/02/22-rdf-syntax-ns#langString".into()))]);
    for t in &extra {
        n += 1;
        let arc = ArcTerm::from_term(t.borrow_term());
        let rc = RcTerm::from_term(t.borrow_term());
        same("ArcTerm::from_term", t, &arc);
        same("RcTerm::from_term", t, &rc);
        same("ArcTerm::as_simple", t, &arc.as_simple());
        same("RcTerm::as_simple", t, &rc.as_simple());
        same("ArcTerm::borrow_term", t, &arc.borrow_term());
        same("ArcTerm -> SimpleTerm (into_term)", t, &arc.clone().into_term::<T>());
        same("RcTerm -> SimpleTerm (into_term)", t, &rc.clone().into_term::<T>());
        same("ArcTerm -> RcTerm (into_term)", t, &arc.clone().into_term::<RcTerm>());
        same("RcTerm -> ArcTerm (from_term of a reference)", t, &ArcTerm::from_term(&rc));
        same("SimpleTerm::from_term_ref(ArcTerm)", t, &SimpleTerm::from_term_ref(&arc));
        same("SimpleTerm::from_term_ref(SimpleTerm)", t, &SimpleTerm::from_term_ref(t));
        same("SimpleTerm::as_simple", t, &t.as_simple());
        same("try_into_term::<SimpleTerm>", t, &t.borrow_term().try_into_term::<T>().unwrap());
        let mut s1 = ArcStrStash::new();
        same("ArcStrStash::copy_term(SimpleTerm)", t, &s1.copy_term(t.borrow_term()));
        same("ArcStrStash::copy_term(ArcTerm)", t, &s1.copy_term(arc.clone()));
        same("ArcStrStash::copy_term(&RcTerm)", t, &s1.copy_term(&rc));
        let mut s2 = RcStrStash::new();
        same("RcStrStash::copy_term(RcTerm)", t, &s2.copy_term(rc.clone()));
        same("RcStrStash::copy_term(ArcTerm)", t, &s2.copy_term(arc.clone()));
        // components seen through the copies
        if let Some(tr) = arc.triple() { let orig = t.triple().unwrap(); for i in 0..3 { same("component of ArcTerm::triple()", &orig[i], &tr[i]); } }
        if let Some(tr) = arc.clone().to_triple() { let orig = t.triple().unwrap(); for i in 0..3 { same("component of ArcTerm::to_triple()", &orig[i], &tr[i]); } }
        let mut atoms_o: Vec<String> = t.atoms().map(|x| format!("{:?}", x.as_simple())).collect();
        let mut atoms_c: Vec<String> = arc.atoms().map(|x| format!("{:?}", x.as_simple())).collect();
        atoms_o.sort(); atoms_c.sort();
        if atoms_o != atoms_c { fail(format!("atoms() of the ArcTerm copy differ: {:?} vs {:?}", atoms_o, atoms_c)); }
    }
    // other Term implementations shipped by the toolkit: the same term held in them answers every accessor like
    // the SimpleTerm and is equal / hashed / ordered alike
    fn accessors<A: Term + std::fmt::Debug, B: Term + std::fmt::Debug>(how: &str, a: &A, b: &B) {
        let s = |x: Option<sophia_api::MownStr>| x.map(|m| m.to_string());
        let ok = a.kind() == b.kind()
            && a.iri().map(|i| i.as_str().to_string()) == b.iri().map(|i| i.as_str().to_string())
            && a.bnode_id().map(|i| i.as_str().to_string()) == b.bnode_id().map(|i| i.as_str().to_string())
            && s(a.lexical_form()) == s(b.lexical_form())
            && a.datatype().map(|i| i.as_str().to_string()) == b.datatype().map(|i| i.as_str().to_string())
            && a.language_tag().map(|i| i.as_str().to_ascii_lowercase()) == b.language_tag().map(|i| i.as_str().to_ascii_lowercase())
            && a.variable().map(|i| i.as_str().to_string()) == b.variable().map(|i| i.as_str().to_string())
            && a.is_triple() == b.is_triple() && a.is_atom() == b.is_atom() && a.is_iri() == b.is_iri() && a.is_blank_node() == b.is_blank_node() && a.is_literal() == b.is_literal() && a.is_variable() == b.is_variable();
        if !ok { fail(format!("{}: accessors of {:?} and {:?} disagree", how, a, b)); }
    }
    for t in &extra {
        n += 1;
        let rt = sophia_sparql::ResultTerm::from(ArcTerm::from_term(t.borrow_term()));
        same("ResultTerm::from(ArcTerm)", t, &rt);
        accessors("ResultTerm", t, &rt);
        accessors("ArcTerm", t, &ArcTerm::from_term(t.borrow_term()));
        accessors("RcTerm", t, &RcTerm::from_term(t.borrow_term()));
        accessors("CmpTerm", t, &sophia_api::term::CmpTerm(t.borrow_term()));
        same("CmpTerm", t, &sophia_api::term::CmpTerm(t.borrow_term()));
        same("&T", t, &&*t);
        if let Some(tr) = rt.triple() { let orig = t.triple().unwrap(); for i in 0..3 { same("component of ResultTerm::triple()", &orig[i], &tr[i]); } }
    }
    // native values as terms vs the equivalent literal
    {
        let xs = "http://www.w3.org/2001/XMLSchema#";
        let l = |lex: &str, dt: &str| SimpleTerm::LiteralDatatype(lex.to_string().into(), IriRef::new_unchecked(format!("{}{}", xs, dt).into()));
        for v in [0i32, 1, -1, 42, i32::MAX, i32::MIN] { n += 1; let lit = l(&v.to_string(), "integer"); same("i32 as term", &lit, &v); accessors("i32 as term", &lit, &v); }
        for v in [0isize, -7, isize::MAX, isize::MIN] { n += 1; let lit = l(&v.to_string(), "integer"); same("isize as term", &lit, &v); accessors("isize as term", &lit, &v); }
        for v in [0usize, 7, usize::MAX] { n += 1; let lit = l(&v.to_string(), "integer"); same("usize as term", &lit, &v); accessors("usize as term", &lit, &v); }
        for v in [true, false] { n += 1; let lit = l(if v { "true" } else { "false" }, "boolean"); same("bool as term", &lit, &v); accessors("bool as term", &lit, &v); }
        for v in ["", "a", "A b", "\u{e9}\u{10400}"] { n += 1; let lit = l(v, "string"); same("str as term", &lit, &v); accessors("str as term", &lit, &v); }
        for v in [1.5f64, -0.0, 1e300, f64::INFINITY] { n += 1; let lf = Term::lexical_form(&v).unwrap().to_string(); let lit = l(&lf, "double"); same("f64 as term", &lit, &v); accessors("f64 as term", &lit, &v); }
        // IRI wrappers and NsTerm as terms
        let i = IriRef::new_unchecked("x:abc"); n += 1; same("IriRef as term", &iri("x:abc"), &i); accessors("IriRef as term", &iri("x:abc"), &i);
        let ns = Namespace::new_unchecked("x:a"); let nt = ns.get_unchecked("bc"); n += 1; same("NsTerm as term", &iri("x:abc"), &nt); accessors("NsTerm as term", &iri("x:abc"), &nt);
        let b = BnodeId::new_unchecked("a"); n += 1; same("BnodeId as term", &SimpleTerm::BlankNode(BnodeId::new_unchecked("a".into())), &b);
        let v = VarName::new_unchecked("a"); n += 1; same("VarName as term", &SimpleTerm::Variable(VarName::new_unchecked("a".into())), &v);
    }
    // Rio model terms wrapped as Trusted
    {
        use rio_api::model as rm;
        use sophia_rio::model::Trusted;
        let nn = rm::NamedNode { iri: "x:abc" };
        n += 1; same("Trusted<NamedNode>", &iri("x:abc"), &Trusted(nn)); accessors("Trusted<NamedNode>", &iri("x:abc"), &Trusted(nn));
        let bnn = rm::BlankNode { id: "a" };
        n += 1; same("Trusted<BlankNode>", &SimpleTerm::BlankNode(BnodeId::new_unchecked("a".into())), &Trusted(bnn));
        let lits = [
            (rm::Literal::Simple { value: "a" }, SimpleTerm::LiteralDatatype("a".into(), IriRef::new_unchecked("http://www.w3.org/2001/XMLSchema#string".into()))),
            (rm::Literal::LanguageTaggedString { value: "a", language: "en-US" }, SimpleTerm::LiteralLanguage("a".into(), LanguageTag::new_unchecked("en-us".into()))),
            (rm::Literal::Typed { value: " 1 ", datatype: rm::NamedNode { iri: "x:d" } }, SimpleTerm::LiteralDatatype(" 1 ".into(), IriRef::new_unchecked("x:d".into()))),
        ];
        for (rl, st) in lits { n += 1; same("Trusted<Literal>", &st, &Trusted(rl)); accessors("Trusted<Literal>", &st, &Trusted(rl)); same("Trusted<Term::Literal>", &st, &Trusted(rm::Term::Literal(rl))); }
        let inner = rm::Triple { subject: rm::Subject::BlankNode(bnn), predicate: nn, object: rm::Term::Literal(rm::Literal::Simple { value: "a" }) };
        let qt = rm::Term::Triple(&inner);
        let st = SimpleTerm::Triple(Box::new([SimpleTerm::BlankNode(BnodeId::new_unchecked("a".into())), iri("x:abc"), SimpleTerm::LiteralDatatype("a".into(), IriRef::new_unchecked("http://www.w3.org/2001/XMLSchema#string".into()))]));
        n += 1; same("Trusted<Term::Triple>", &st, &Trusted(qt));
        let gn = rm::GraphName::NamedNode(nn); n += 1; same("Trusted<GraphName>", &iri("x:abc"), &Trusted(gn));
    }
    // terms coming out of the JSON-LD parser (its own Term type): each one against its SimpleTerm copy, and a
    // literal has a language tag only together with the datatype rdf:langString
    {
        use sophia_api::prelude::QuadParser;
        use sophia_api::quad::Quad;
        use sophia_api::source::QuadSource;
        use sophia_jsonld::{JsonLdOptions, JsonLdParser};
        let doc = r#"{"@id": "tag:s", "tag:p": ["plain", 42, 1.5e0, true, {"@value": "chat", "@language": "fr-CA"}, {"@value": "5", "@type": "tag:dt"},
            {"@value": "hello", "@language": "en", "@direction": "ltr"}, {"@value": "salam", "@direction": "rtl"}, {"@id": "_:b0"}, {"@id": "tag:o"}, {"@list": ["a", {"@id": "_:b1"}]}],
            "@graph": [{"@id": "_:b0", "tag:q": {"@value": {"k": [1, 2]}, "@type": "@json"}}]}"#;
        for dir in [None, Some(sophia_jsonld::options::RdfDirection::I18nDatatype), Some(sophia_jsonld::options::RdfDirection::CompoundLiteral)] {
            let mut options = JsonLdOptions::new();
            if let Some(d) = dir { options = options.with_rdf_direction(d); }
            let p = JsonLdParser::new_with_options(options);
            let mut src = p.parse_str(doc);
            let mut k = 0u64;
            src.for_each_quad(|q| {
                let g = q.g();
                let mut terms = vec![q.s(), q.p(), q.o()];
                if let Some(gn) = g { terms.push(gn); }
                for t in terms {
                    k += 1;
                    let copy: T = t.into_term();
                    same("JSON-LD parser term vs its SimpleTerm copy", &copy, &t);
                    accessors("JSON-LD parser term", &copy, &t);
                    same("JSON-LD parser term .as_simple()", &copy, &t.as_simple());
                    if t.is_literal() {
                        let dt = t.datatype().map(|d| d.as_str().to_string()).unwrap_or_default();
                        if t.language_tag().is_some() != (dt == "http://www.w3.org/1999/02/22-rdf-syntax-ns#langString") { fail(format!("JSON-LD parser literal {:?}: language tag {:?} with datatype {:?}", t, t.language_tag(), dt)); }
                    }
                }
            }).unwrap_or_else(|e| fail(format!("JSON-LD document does not parse: {}", e)));
            if k < 30 { fail(format!("JSON-LD document gave only {} terms", k)); }
            n += k;
        }
    }
    // graph names
    for t in &extra {
        let g: sophia_api::term::GraphName<&T> = Some(t);
        let g2: sophia_api::term::GraphName<ArcTerm> = g.map(|x| ArcTerm::from_term(x.borrow_term()));
        if !sophia_api::term::graph_name_eq(g, g2.as_ref().map(|x| x.borrow_term())) { fail(format!("graph_name_eq false after copy: {:?}", t)); }
        if sophia_api::term::graph_name_eq(g, None::<&T>) { fail(format!("graph_name_eq(Some, None) true: {:?}", t)); }
    }
    n
}

fn main() {
    let p = pool();
    let mut n = conversions(&p);
    for a in &p { for b in &p {
        n += 1;
        let eq = Term::eq(a, b);
        if eq != Term::eq(b, a) { fail(format!("eq not symmetric: {:?} {:?}", a, b)); }
        if eq != Term::eq(&a.as_simple(), b.borrow_term()) { fail(format!("eq differs between representations: {:?} {:?}", a, b)); }
        let c = Term::cmp(a, b);
        if (c == Ordering::Equal) != eq { fail(format!("cmp == Equal but not eq (or conversely): {:?} {:?}", a, b)); }
        if Term::cmp(b, a) != c.reverse() { fail(format!("cmp not antisymmetric: {:?} {:?}", a, b)); }
        if rank(a) != rank(b) && c != rank(a).cmp(&rank(b)) { fail(format!("kind order violated: {:?} {:?}", a, b)); }
        if let (SimpleTerm::Triple(ta), SimpleTerm::Triple(tb)) = (a, b) {
            // quoted triples: the first differing component decides, with the same order on components
            let mut want = Ordering::Equal;
            for i in 0..3 { let o = Term::cmp(&ta[i], &tb[i]); if o != Ordering::Equal { want = o; break; } }
            if c != want { fail(format!("quoted triples are not ordered component-wise: {:?} {:?}: {:?}, components say {:?}", a, b, c, want)); }
        }
        if eq && h(a) != h(b) { fail(format!("equal terms hash differently: {:?} {:?}", a, b)); }
        let copy: T = a.into_term();
        if !Term::eq(&copy, a) || h(&copy) != h(a) { fail(format!("copy is not equal to the original: {:?}", a)); }
        for c3 in &p {
            let (ab, bc, ac) = (Term::cmp(a, b), Term::cmp(b, c3), Term::cmp(a, c3));
            if ab != Ordering::Greater && bc != Ordering::Greater && ac == Ordering::Greater { fail(format!("cmp not transitive: {:?} {:?} {:?}", a, b, c3)); }
            if Term::eq(a, b) && Term::eq(b, c3) && !Term::eq(a, c3) { fail(format!("eq not transitive: {:?} {:?} {:?}", a, b, c3)); }
        }
    }}
    // NsTerm vs IRI for every split point, against every near miss of the full IRI: one character removed or
    // inserted anywhere, any substring doubled (so that a namespace and a suffix that overlap or leave a gap are met)
    for full in ["x:abc", "x:aaa", "http://e/ns#ab"] {
        let mut others: Vec<String> = vec![full.to_string(), String::new()];
        for i in 0..full.len() { let mut s = full.to_string(); s.remove(i); others.push(s); }
        for i in 0..=full.len() { for c in "abc:x#/".chars() { let mut s = full.to_string(); s.insert(i, c); others.push(s); } }
        for i in 0..full.len() { for j in i + 1..=full.len() { others.push(format!("{}{}{}", &full[..j], &full[i..j], &full[j..])); } }
        for i in 0..full.len() { for j in i + 1..=full.len() { others.push(format!("{}{}", &full[..i], &full[j..])); } }
        others.sort(); others.dedup();
        others.retain(|o| IriRef::new(o.as_str()).is_ok());
        for cut in 0..=full.len() {
            let ns = Namespace::new_unchecked(&full[..cut]);
            let t = ns.get_unchecked(&full[cut..]);
            for o in &others {
                n += 1;
                let want = o == full;
                if Term::eq(&t, iri(o)) != want || Term::eq(&iri(o), t) != want || Term::eq(&&t, iri(o)) != want { fail(format!("NsTerm({:?}+{:?}) vs <{}>", &full[..cut], &full[cut..], o)); }
                if want && (h(&t) != h(&iri(o)) || Term::cmp(&t, iri(o)) != Ordering::Equal) { fail(format!("NsTerm hash / cmp differs from the IRI's: {}", o)); }
                if (Term::cmp(&t, iri(o)) == Ordering::Equal) != want { fail(format!("NsTerm({:?}+{:?}) cmp vs <{}>", &full[..cut], &full[cut..], o)); }
            }
        }
    }
    // native terms vs their SimpleTerm copies
    let i: T = 42i32.into_term();
    if !Term::eq(&42i32, &i) || h(&42i32) != h(&i) || Term::cmp(&42i32, &i) != Ordering::Equal { fail("i32 vs its copy".into()); }
    let s: T = "hello".into_term();
    if !Term::eq("hello", &s) || h("hello") != h(&s) { fail("str vs its copy".into()); }
    println!("{{\"ok\":true,\"cases\":{}}}", n);
}
