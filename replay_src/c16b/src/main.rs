//! Bounded native stand-in for C16 on functions neither verifier reaches: each site processes N items
//! (N given on the command line) on a thread with a 2 MiB stack, unoptimised build.  A stack overflow aborts the
//! process (SIGABRT / SIGSEGV); the driver reports that as the violation.  The data is FLAT (no quoted triples,
//! no nested collections / blank node property lists): only the NUMBER of items grows.
//!   filter | filter_map | map : stream adapters of api/src/source over N items, all but the last rejected
//!   sparql-graphs : SELECT ?g { GRAPH ?g { ?s ?p ?o } } over N named graphs          (sparql/src/exec.rs graph_rec)
//!   sparql-bgp    : SELECT over a two-pattern BGP with N solutions, and N non-matching rows (sparql/src/bgp.rs)
//!   sparql-union  : ASK / DISTINCT / ORDER BY / LIMIT over N solutions
//!   jsonld-list   : JSON-LD serialisation of one rdf:List of N items (jsonld/src/serializer/engine.rs)
//!   jsonld-many   : JSON-LD serialisation of N flat quads in N/10 named graphs
//!   turtle-list   : pretty Turtle of one collection of N items                         (turtle/src/serializer/_pretty.rs)
//!   turtle-objects: pretty Turtle of ONE subject with N rdf:type objects and N objects of another predicate
//!   turtle-many   : pretty Turtle / TriG of N flat statements, N subjects, N/10 named graphs
use sophia_api::prelude::*;
use sophia_api::serializer::{QuadSerializer, Stringifier, TripleSerializer};
use sophia_api::source::{QuadSource, Source, TripleSource};
use sophia_api::term::{BnodeId, IriRef, SimpleTerm};
use sophia_inmem::dataset::{FastDataset, LightDataset};
use sophia_inmem::graph::LightGraph;
use sophia_sparql::{SparqlWrapper};
use sophia_api::sparql::{SparqlDataset, SparqlResult};

type T = SimpleTerm<'static>;
fn iri(s: String) -> T { SimpleTerm::Iri(IriRef::new_unchecked(s.into())) }
fn bn(s: String) -> T { SimpleTerm::BlankNode(BnodeId::new_unchecked(s.into())) }
const RDF: &str = "http://www.w3.org/1999/02/22-rdf-syntax-ns#";

fn list_graph(n: usize) -> Vec<[T; 3]> {
    let mut g = vec![[iri("x:s".into()), iri("x:p".into()), bn("l0".into())]];
    for i in 0..n {
        g.push([bn(format!("l{}", i)), iri(format!("{}first", RDF)), iri(format!("x:i{}", i))]);
        let rest = if i + 1 == n { iri(format!("{}nil", RDF)) } else { bn(format!("l{}", i + 1)) };
        g.push([bn(format!("l{}", i)), iri(format!("{}rest", RDF)), rest]);
    }
    g
}

fn count_bindings<D: Dataset>(d: &D, q: &str) -> usize {
    let w = SparqlWrapper(d);
    match w.query(q).unwrap() {
        SparqlResult::Bindings(b) => b.into_iter().map(|r| { r.unwrap(); 1 }).sum(),
        SparqlResult::Boolean(b) => b as usize,
        SparqlResult::Triples(_) => 0,
    }
}

fn run(site: &str, n: usize) -> usize {
    let mut total = 0usize;
    match site {
        "filter" | "filter_map" | "map" => {
            let data: Vec<[T; 3]> = (0..n).map(|i| [iri("x:s".into()), iri("x:p".into()), iri(format!("x:o{}", i))]).collect();
            let last = iri(format!("x:o{}", n - 1));
            match site {
                "filter" => {
                    data.triples().filter_triples(|t| Term::eq(&t.o(), &last)).for_each_triple(|_| total += 1).unwrap();
                    let c: Vec<[T; 3]> = data.triples().filter_triples(|t| Term::eq(&t.o(), &last)).collect_triples().unwrap();
                    total += c.len();
                    data.triples().to_quads().filter_quads(|q| Term::eq(&q.o(), &last)).for_each_quad(|_| total += 1).unwrap();
                    let mut g = LightGraph::new();
                    total += g.insert_all(data.triples().filter_triples(|t| Term::eq(&t.o(), &last))).unwrap();
                }
                "filter_map" => {
                    data.triples().filter_map_triples(|t| if Term::eq(&t.o(), &last) { Some(1usize) } else { None }).for_each_item(|_| total += 1).unwrap();
                    total += data.triples().filter_map_triples(|t| if Term::eq(&t.o(), &last) { Some(1usize) } else { None }).into_iter().count();
                }
                _ => {
                    data.triples().map_triples(|t| Term::eq(&t.o(), &last)).for_each_item(|b| total += b as usize).unwrap();
                    total += data.triples().map_triples(|t| Term::eq(&t.o(), &last)).into_iter().filter(|b| *b.as_ref().unwrap()).count();
                }
            }
            total
        }
        "sparql-graphs" => {
            let mut d = FastDataset::new();
            for i in 0..n { d.insert(iri("x:s".into()), iri("x:p".into()), iri("x:o".into()), Some(iri(format!("x:g{}", i)))).unwrap(); }
            total += count_bindings(&d, "SELECT ?g { GRAPH ?g { ?s ?p ?o } }");
            total += count_bindings(&d, "SELECT ?g { GRAPH ?g { <x:s> <x:p> <x:nothing> } }");
            total
        }
        "sparql-bgp" => {
            let mut d = LightDataset::new();
            for i in 0..n {
                d.insert(iri(format!("x:s{}", i)), iri("x:p".into()), iri("x:o".into()), None::<T>).unwrap();
                d.insert(iri(format!("x:s{}", i)), iri("x:q".into()), iri(format!("x:v{}", i % 2)), None::<T>).unwrap();
            }
            total += count_bindings(&d, "SELECT ?s { ?s <x:p> <x:o> . ?s <x:q> <x:v1> }");
            total += count_bindings(&d, "SELECT ?s { ?s <x:p> <x:o> . ?s <x:q> <x:none> }");
            total += count_bindings(&d, "SELECT ?s { ?s <x:p> ?o FILTER(?s = <x:none>) }");
            total
        }
        "sparql-union" => {
            let mut d = LightDataset::new();
            for i in 0..n { d.insert(iri(format!("x:s{}", i)), iri("x:p".into()), iri("x:o".into()), None::<T>).unwrap(); }
            total += count_bindings(&d, "SELECT DISTINCT ?o { ?s <x:p> ?o }");
            total += count_bindings(&d, "SELECT ?s { ?s <x:p> ?o } ORDER BY DESC(?s) OFFSET 5 LIMIT 7");
            total += count_bindings(&d, "SELECT ?s { { ?s <x:p> <x:none> } UNION { ?s <x:p> <x:o> } }");
            total += count_bindings(&d, "ASK { ?s <x:p> <x:none> }");
            total
        }
        "jsonld-list" => {
            let g = list_graph(n);
            let mut ser = sophia_jsonld::JsonLdSerializer::new_stringifier();
            ser.serialize_quads(g.triples().to_quads()).unwrap();
            ser.as_str().len()
        }
        "jsonld-many" => {
            let mut d: Vec<([T; 3], Option<T>)> = vec![];
            for i in 0..n { d.push(([iri(format!("x:s{}", i)), iri("x:p".into()), iri(format!("x:o{}", i))], if i % 10 == 0 { None } else { Some(iri(format!("x:g{}", i / 10))) })); }
            let mut ser = sophia_jsonld::JsonLdSerializer::new_stringifier();
            ser.serialize_quads(d.quads()).unwrap();
            ser.as_str().len()
        }
        "turtle-list" => {
            let g: LightGraph = list_graph(n).triples().collect_triples().unwrap();
            let cfg = sophia_turtle::serializer::turtle::TurtleConfig::new().with_pretty(true);
            let mut ser = sophia_turtle::serializer::turtle::TurtleSerializer::new_stringifier_with_config(cfg);
            ser.serialize_graph(&g).unwrap();
            ser.as_str().len()
        }
        "turtle-objects" => {
            // ONE subject with N rdf:type objects and N objects of another predicate (object lists, not nesting)
            let mut g = LightGraph::new();
            for i in 0..n {
                g.insert(iri("x:s".into()), iri(format!("{}type", RDF)), iri(format!("x:C{}", i))).unwrap();
                g.insert(iri("x:s".into()), iri("x:p".into()), iri(format!("x:o{}", i))).unwrap();
            }
            let cfg = sophia_turtle::serializer::turtle::TurtleConfig::new().with_pretty(true);
            let mut ser = sophia_turtle::serializer::turtle::TurtleSerializer::new_stringifier_with_config(cfg);
            ser.serialize_graph(&g).unwrap();
            ser.as_str().len()
        }
        "turtle-many" => {
            let mut d = LightDataset::new();
            for i in 0..n { d.insert(iri(format!("x:s{}", i)), iri("x:p".into()), iri(format!("x:o{}", i)), if i % 10 == 0 { None } else { Some(iri(format!("x:g{}", i / 10))) }).unwrap(); }
            let cfg = sophia_turtle::serializer::trig::TrigConfig::new().with_pretty(true);
            let mut ser = sophia_turtle::serializer::trig::TrigSerializer::new_stringifier_with_config(cfg);
            ser.serialize_dataset(&d).unwrap();
            total += ser.as_str().len();
            let g: LightGraph = d.quads().map_quads(|q| { let (spo, _) = q.to_spog(); spo.map(|t| t.into_term::<T>()) }).into_iter().map(|r| r.unwrap()).collect::<Vec<[T;3]>>().triples().collect_triples().unwrap();
            let cfg = sophia_turtle::serializer::turtle::TurtleConfig::new().with_pretty(true);
            let mut ser = sophia_turtle::serializer::turtle::TurtleSerializer::new_stringifier_with_config(cfg);
            ser.serialize_graph(&g).unwrap();
            total + ser.as_str().len()
        }
        _ => panic!("unknown site"),
    }
}

fn main() {
    let site = std::env::args().nth(1).unwrap();
    let n: usize = std::env::args().nth(2).and_then(|s| s.parse().ok()).unwrap_or(50_000);
    let s2 = site.clone();
    let h = std::thread::Builder::new().stack_size(2 * 1024 * 1024).spawn(move || run(&s2, n)).unwrap();
    let r = h.join().unwrap();
    println!("{{\"ok\":true,\"site\":{:?},\"n\":{},\"result\":{}}}", site, n, r);
}
