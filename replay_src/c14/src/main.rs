//! Replay for C14 through the public SPARQL engine: the order used by ORDER BY on numeric literals, observed with
//! ASK { FILTER(a < b) } / FILTER(a = b) on boundary values (2^24, 2^24+1, 2^53, 2^53+1 as xsd:integer /
//! xsd:float / xsd:double), searched for a triple violating transitivity, and confirmed with a real ORDER BY whose
//! output depends on the input order.
//!   usage: replay_c14 [kinds]      kinds e.g. "double_float_nativeint" restricts the search to that kind triple
use sophia_api::prelude::*;
use sophia_api::sparql::{SparqlDataset, SparqlResult};
use sophia_api::term::SimpleTerm;
use sophia_sparql::SparqlWrapper;
use std::cmp::Ordering;
mod orderby;

#[derive(Clone, Debug, PartialEq)]
struct V { kind: &'static str, lit: String }

fn values() -> Vec<V> {
    let mut v = vec![];
    for i in ["16777216", "16777217", "16777218", "9007199254740992", "9007199254740993", "9007199254740994", "-16777217", "0"] {
        v.push(V { kind: "nativeint", lit: format!("\"{}\"^^<http://www.w3.org/2001/XMLSchema#integer>", i) });
    }
    for f in ["16777216", "16777218", "9007199254740992", "-16777216", "0"] {
        v.push(V { kind: "float", lit: format!("\"{}\"^^<http://www.w3.org/2001/XMLSchema#float>", f) });
    }
    for d in ["16777216", "16777217", "9007199254740992", "9007199254740994", "-16777217", "0"] {
        v.push(V { kind: "double", lit: format!("\"{}\"^^<http://www.w3.org/2001/XMLSchema#double>", d) });
    }
    v
}

fn ask(q: &str) -> bool {
    let d: Vec<[SimpleTerm<'static>; 4]> = vec![];
    let w = SparqlWrapper(&d);
    let r = match w.query(q) {
        Ok(SparqlResult::Boolean(b)) => b,
        Ok(_) => panic!("not a boolean"),
        Err(e) => panic!("query failed: {e}"),
    };
    r
}

fn cmp(a: &V, b: &V) -> Option<Ordering> {
    if ask(&format!("ASK {{ FILTER({} < {}) }}", a.lit, b.lit)) { Some(Ordering::Less) }
    else if ask(&format!("ASK {{ FILTER({} = {}) }}", a.lit, b.lit)) { Some(Ordering::Equal) }
    else if ask(&format!("ASK {{ FILTER({} > {}) }}", a.lit, b.lit)) { Some(Ordering::Greater) }
    else { None }
}

fn main() {
    let only = std::env::args().nth(1);
    if let Some(m) = &only { if m == "orderby" || m == "findings" { orderby::main_orderby(m); return; } }
    let vs = values();
    let mut n = 0u64;
    for a in &vs { for b in &vs { for c in &vs {
        if let Some(k) = &only { if &format!("{}_{}_{}", a.kind, b.kind, c.kind) != k { continue; } }
        n += 1;
        let (ab, bc, ac) = (cmp(a, b), cmp(b, c), cmp(a, c));
        let bad = match (ab, bc, ac) {
            (Some(x), Some(y), Some(z)) => (x != Ordering::Greater && y != Ordering::Greater && z == Ordering::Greater) || (x == Ordering::Equal && y == Ordering::Equal && z != Ordering::Equal),
            _ => true,
        };
        if bad {
            println!("{{\"mismatch\":\"the numeric order is not a total preorder\",\"kinds\":\"{}_{}_{}\",\"a\":{:?},\"b\":{:?},\"c\":{:?},\"a?b\":\"{:?}\",\"b?c\":\"{:?}\",\"a?c\":\"{:?}\"}}", a.kind, b.kind, c.kind, a.lit, b.lit, c.lit, ab, bc, ac);
            std::process::exit(1);
        }
    }}}
    println!("{{\"ok\":true,\"triples\":{}}}", n);
}
