//! `orderby` mode: the order used by ORDER BY, observed through the public engine on a pool of values.
//!  T  cmp(a, b) is read off two-row datasets (both insertion orders: rows that compare Equal keep their input order);
//!  1  it is a total preorder on the pool: transitive for <= and for Equal;
//!  2  unbound < blank node < IRI < literal;
//!  3  it agrees with an INDEPENDENT statement of SPARQL's '<' on the pool (numeric value, code point order of simple
//!     strings, false < true, dateTime instants), and FILTER(a < b) agrees with that oracle too;
//!  4  ORDER BY / ORDER BY DESC of the whole pool are permutations sorted by cmp (reversed for DESC);
//!  5  with two keys, the second key breaks ties of the first (ASC/DESC mixed).
//! The main pool contains no NaN, no ill-typed literal and no timezone-less dateTime; three separate triples (the
//! recorded known findings) cover one witness of each of these.
use sophia_api::prelude::*;
use sophia_api::sparql::{SparqlDataset, SparqlResult};
use sophia_api::term::{BnodeId, IriRef, LanguageTag, SimpleTerm};
use sophia_sparql::SparqlWrapper;
use std::cmp::Ordering;

type T = SimpleTerm<'static>;
const XSD: &str = "http://www.w3.org/2001/XMLSchema#";
fn iri(s: &str) -> T { SimpleTerm::Iri(IriRef::new_unchecked(s.to_string().into())) }
fn bn(s: &str) -> T { SimpleTerm::BlankNode(BnodeId::new_unchecked(s.to_string().into())) }
fn lit(lex: &str, dt: &str) -> T { SimpleTerm::LiteralDatatype(lex.to_string().into(), IriRef::new_unchecked(format!("{}{}", XSD, dt).into())) }
fn lang(lex: &str, tag: &str) -> T { SimpleTerm::LiteralLanguage(lex.to_string().into(), LanguageTag::new_unchecked(tag.to_string().into())) }

#[derive(Clone, Debug, PartialEq)]
pub enum Key { /* twice the value, exactly */ Num(i128), Str(String), Bool(bool), Instant(i64), None }
#[derive(Clone, Debug)]
pub struct Item { pub name: String, pub term: Option<T>, pub class: u8, pub key: Key }

fn it(term: Option<T>, class: u8, key: Key) -> Item {
    let name = match &term { None => "UNBOUND".to_string(), Some(t) => format!("{:?}", t).replace("http://www.w3.org/2001/XMLSchema#", "xsd:") };
    Item { name, term, class, key }
}

pub fn pool() -> Vec<Item> {
    let n = |lex: &str, dt: &str, twice: i128| it(Some(lit(lex, dt)), 3, Key::Num(twice));
    vec![
        it(None, 0, Key::None),
        it(Some(bn("b1")), 1, Key::None), it(Some(bn("b2")), 1, Key::None),
        it(Some(iri("x:a")), 2, Key::None), it(Some(iri("x:b")), 2, Key::None),
        n("1", "integer", 2), n("01", "integer", 2), n("2", "integer", 4), n("10", "integer", 20), n("-5", "integer", -10), n("0", "integer", 0),
        n("-99999999999999999999999", "integer", -199999999999999999999998), n("99999999999999999999999", "integer", 199999999999999999999998),
        n("-99999999999999999999998", "integer", -199999999999999999999996),
        n("1.5", "decimal", 3), n("1.0", "decimal", 2), n("-0.5", "decimal", -1),
        n("2.5e0", "double", 5), n("1e0", "double", 2), n("-1e1", "double", -20), n("1e30", "double", 2000000000000000000000000000000),
        n("2.5", "float", 5), n("3", "float", 6),
        n("7", "long", 14), n("8", "nonNegativeInteger", 16),
        it(Some(lit("a", "string")), 3, Key::Str("a".into())), it(Some(lit("b", "string")), 3, Key::Str("b".into())), it(Some(lit("B", "string")), 3, Key::Str("B".into())),
        it(Some(lit("", "string")), 3, Key::Str("".into())), it(Some(lit("10", "string")), 3, Key::Str("10".into())), it(Some(lit("9", "string")), 3, Key::Str("9".into())),
        it(Some(lit("false", "boolean")), 3, Key::Bool(false)), it(Some(lit("true", "boolean")), 3, Key::Bool(true)),
        it(Some(lit("2024-09-17T12:00:00Z", "dateTime")), 3, Key::Instant(43200)), it(Some(lit("2024-09-17T23:00:00+12:00", "dateTime")), 3, Key::Instant(39600)),
        it(Some(lit("2024-09-17T01:00:00-11:00", "dateTime")), 3, Key::Instant(43200)), it(Some(lit("2024-09-18T00:00:00Z", "dateTime")), 3, Key::Instant(86400)),
        it(Some(lang("a", "en")), 3, Key::None), it(Some(lang("a", "fr")), 3, Key::None),
        it(Some(lit("x", "anyURI")), 3, Key::None),
    ]
}

/// the recorded witnesses of the three known classes of cycles (one triple each)
pub fn finding_triples() -> Vec<(&'static str, Vec<Item>)> {
    let n = |lex: &str, dt: &str| it(Some(lit(lex, dt)), 3, Key::None);
    vec![
        ("nan", vec![n("NaN", "double"), n("5", "integer"), n("6e0", "double")]),
        ("ill_typed", vec![n("5x", "integer"), n("9", "integer"), n("10", "integer")]),
        ("datetime_no_timezone", vec![n("2024-09-17T12:00:00", "dateTime"), n("2024-09-17T23:00:00+12:00", "dateTime"), n("2024-09-17T01:00:00-11:00", "dateTime")]),
    ]
}

fn oracle(a: &Item, b: &Item) -> Option<Ordering> {
    match (&a.key, &b.key) {
        (Key::Num(x), Key::Num(y)) => Some(Ord::cmp(x, y)),
        (Key::Str(x), Key::Str(y)) => Some(x.cmp(y)),
        (Key::Bool(x), Key::Bool(y)) => Some(Ord::cmp(x, y)),
        (Key::Instant(x), Key::Instant(y)) => Some(x.cmp(y)),
        _ => None,
    }
}

/// rows: (row id, first key, second key).  Returns the row ids in the order of the solutions.
fn run_query(rows: &[(usize, &Item, Option<&Item>)], order: &str) -> Vec<usize> {
    let mut d: Vec<[T; 4]> = vec![];
    // named graph so that the array-of-4 dataset is well-formed; the queries use GRAPH <x:g>
    for (id, x, k) in rows {
        let s = iri(&format!("x:s{}", id));
        match &x.term { Some(t) => d.push([s.clone(), iri("x:v"), t.clone(), iri("x:g")]), None => d.push([s.clone(), iri("x:u"), iri("x:o"), iri("x:g")]) }
        if let Some(k) = k { if let Some(t) = &k.term { d.push([s.clone(), iri("x:k"), t.clone(), iri("x:g")]); } }
    }
    let with_k = rows.iter().any(|r| r.2.is_some());
    let q = if with_k {
        format!("SELECT ?s {{ GRAPH <x:g> {{ ?s <x:k> ?k . ?s <x:v> ?x }} }} ORDER BY {}", order)
    } else {
        format!("SELECT ?s {{ GRAPH <x:g> {{ {{ ?s <x:v> ?x }} UNION {{ ?s <x:u> ?y }} }} }} ORDER BY {}", order)
    };
    let w = SparqlWrapper(&d);
    let res = match w.query(q.as_str()) { Ok(SparqlResult::Bindings(b)) => b, Ok(_) => panic!("not bindings"), Err(e) => panic!("query failed: {e} in {q}") };
    res.into_iter().map(|r| { let r = r.unwrap(); let s = r[0].as_ref().unwrap().iri().unwrap().as_str()[3..].parse::<usize>().unwrap(); s }).collect()
}

/// cmp(a, b) as ORDER BY sees it
fn ob_cmp(a: &Item, b: &Item) -> Ordering {
    if a.term.is_none() && b.term.is_none() { return Ordering::Equal; }
    let r1 = run_query(&[(0, a, None), (1, b, None)], "?x");
    let r2 = run_query(&[(1, b, None), (0, a, None)], "?x");
    assert!(r1.len() == 2 && r2.len() == 2, "ORDER BY lost or duplicated a row");
    if r1 == r2 { if r1[0] == 0 { Ordering::Less } else { Ordering::Greater } } else { Ordering::Equal }
}

fn fail(what: &str, detail: String) -> ! { println!("{{\"mismatch\":{:?},\"detail\":{:?}}}", what, detail); std::process::exit(1) }

fn ask(q: &str) -> bool {
    let d: Vec<[T; 4]> = vec![];
    let w = SparqlWrapper(&d);
    let r = match w.query(q) { Ok(SparqlResult::Boolean(b)) => b, Ok(_) => panic!("not a boolean"), Err(e) => panic!("query failed: {e} {q}") };
    r
}
fn nt(t: &T) -> String {
    match t {
        SimpleTerm::LiteralDatatype(l, d) => format!("\"{}\"^^<{}>", l, d.as_str()),
        SimpleTerm::LiteralLanguage(l, g) => format!("\"{}\"@{}", l, g.as_str()),
        SimpleTerm::Iri(i) => format!("<{}>", i.as_str()),
        _ => panic!(),
    }
}

fn table(p: &[Item]) -> Vec<Vec<Ordering>> {
    let mut t = vec![vec![Ordering::Equal; p.len()]; p.len()];
    for i in 0..p.len() { for j in 0..p.len() { if i != j { t[i][j] = ob_cmp(&p[i], &p[j]); } } }
    t
}

fn cycles(p: &[Item], t: &[Vec<Ordering>]) -> Vec<String> {
    let mut out = vec![];
    let n = p.len();
    for i in 0..n { for j in 0..n { if t[i][j] != t[j][i].reverse() { out.push(format!("asymmetric: {} ? {}", p[i].name, p[j].name)); } } }
    for a in 0..n { for b in 0..n { for c in 0..n {
        let (ab, bc, ac) = (t[a][b], t[b][c], t[a][c]);
        if (ab != Ordering::Greater && bc != Ordering::Greater && ac == Ordering::Greater) || (ab == Ordering::Equal && bc == Ordering::Equal && ac != Ordering::Equal) {
            out.push(format!("{} <= {} <= {} but not {} <= {}", p[a].name, p[b].name, p[c].name, p[a].name, p[c].name));
        }
    }}}
    out
}

/// rows: (raw value x, optional subtrahend d); key = x - d when d is given (computed), else the raw term x
fn expression_keys() -> usize {
    let n = |lex: &str, dt: &str| lit(lex, dt);
    // (x, d, numeric key x2 if numeric)
    let rows: Vec<(T, Option<T>, Option<i128>)> = vec![
        (n("3", "integer"), None, Some(6)), (n("3", "integer"), Some(n("1", "integer")), Some(4)), (n("10", "integer"), Some(n("1", "integer")), Some(18)),
        (n("5", "integer"), None, Some(10)), (n("2.5", "decimal"), None, Some(5)), (n("7", "integer"), Some(n("0.5", "decimal")), Some(13)),
        (n("n/a", "string"), None, None), (n("zzz", "string"), None, None), (n("x", "anyURI"), None, None), (iri("x:a"), None, None), (bn("b1"), None, None),
        (n("1", "integer"), Some(n("3", "integer")), Some(-4)), (n("-2", "integer"), None, Some(-4)),
        // small results of big-integer arithmetic (carried as big integers) next to native ones
        (n("100000000000000000005", "integer"), Some(n("100000000000000000000", "integer")), Some(10)), (n("-100000000000000000003", "integer"), Some(n("-100000000000000000000", "integer")), Some(-6)),
        (n("100000000000000000000", "integer"), Some(n("100000000000000000000", "integer")), Some(0)), (n("4", "integer"), None, Some(8)),
    ];
    let run = |sel: &[usize], order: &str| -> Vec<usize> {
        let mut d: Vec<[T; 4]> = vec![];
        for i in sel {
            let s = iri(&format!("x:s{}", i));
            match &rows[*i].1 {
                Some(dd) => { d.push([s.clone(), iri("x:v"), rows[*i].0.clone(), iri("x:g")]); d.push([s.clone(), iri("x:d"), dd.clone(), iri("x:g")]); }
                None => d.push([s.clone(), iri("x:w"), rows[*i].0.clone(), iri("x:g")]),
            }
        }
        let q = format!("SELECT ?s {{ GRAPH <x:g> {{ {{ ?s <x:v> ?x . ?s <x:d> ?d }} UNION {{ ?s <x:w> ?x }} }} }} ORDER BY {}", order);
        let w = SparqlWrapper(&d);
        let res = match w.query(q.as_str()) { Ok(SparqlResult::Bindings(b)) => b, Ok(_) => panic!("not bindings"), Err(e) => panic!("query failed: {e} in {q}") };
        res.into_iter().map(|r| { let r = r.unwrap(); let s = r[0].as_ref().unwrap().iri().unwrap().as_str()[3..].parse::<usize>().unwrap(); s }).collect()
    };
    let key = "COALESCE(?x - ?d, ?x)";
    let m = rows.len();
    let mut t = vec![vec![Ordering::Equal; m]; m];
    for i in 0..m { for j in 0..m { if i != j {
        // rows with ?d come out of the first UNION branch whatever the insertion order: use both DESC and ASC to tell Equal from ordered
        let asc = run(&[i, j], key);
        let desc = run(&[i, j], &format!("DESC({})", key));
        if asc.len() != 2 || desc.len() != 2 { fail("expression key: ORDER BY lost or duplicated a row", format!("{:?} {:?}", asc, desc)); }
        t[i][j] = if asc == desc { Ordering::Equal } else if asc[0] == i { Ordering::Less } else { Ordering::Greater };
    }}}
    let name = |i: usize| format!("{:?}{}", rows[i].0, match &rows[i].1 { Some(d) => format!(" - {:?}", d), None => String::new() }).replace("http://www.w3.org/2001/XMLSchema#", "xsd:");
    for a in 0..m { for b in 0..m {
        if t[a][b] != t[b][a].reverse() { fail("expression keys: the order is not antisymmetric", format!("{} ? {}", name(a), name(b))); }
        if let (Some(x), Some(y)) = (rows[a].2, rows[b].2) { if a != b && t[a][b] != Ord::cmp(&x, &y) { fail("expression keys: ORDER BY disagrees with the numeric values of the keys", format!("{} vs {}: {:?}, values compare {:?}", name(a), name(b), t[a][b], Ord::cmp(&x, &y))); } }
        for c in 0..m {
            let (ab, bc, ac) = (t[a][b], t[b][c], t[a][c]);
            if (ab != Ordering::Greater && bc != Ordering::Greater && ac == Ordering::Greater) || (ab == Ordering::Equal && bc == Ordering::Equal && ac != Ordering::Equal) {
                fail("expression keys (computed values mixed with raw terms): the order used by ORDER BY is not a total preorder", format!("{} <= {} <= {} but not {} <= {}", name(a), name(b), name(c), name(a), name(c)));
            }
        }
    }}
    let all: Vec<usize> = (0..m).collect();
    let out = run(&all, key);
    for i in 0..out.len() { for j in i + 1..out.len() { if t[out[i]][out[j]] == Ordering::Greater { fail("expression keys: ORDER BY output is not sorted by its own order", format!("{} appears before {}", name(out[i]), name(out[j]))); } } }
    m
}

pub fn main_orderby(mode: &str) {
    if mode == "findings" {
        // one line per recorded class whose witness triple is (still) cyclic; exit 0
        for (class, tr) in finding_triples() {
            let t = table(&tr);
            let c = cycles(&tr, &t);
            println!("{{\"class\":{:?},\"cyclic\":{},\"witness\":{:?}}}", class, !c.is_empty(), tr.iter().map(|i| i.name.clone()).collect::<Vec<_>>().join(" ; "));
        }
        return;
    }
    let p = pool();
    let t = table(&p);
    // 1 total preorder
    let c = cycles(&p, &t);
    if !c.is_empty() { fail("the order used by ORDER BY is not a total preorder on the pool", c[0].clone()); }
    // 2 classes
    for i in 0..p.len() { for j in 0..p.len() {
        if p[i].class < p[j].class && t[i][j] != Ordering::Less { fail("ORDER BY does not put unbound < blank node < IRI < literal", format!("{} vs {}: {:?}", p[i].name, p[j].name, t[i][j])); }
    }}
    // 3 agreement with '<'
    for i in 0..p.len() { for j in 0..p.len() {
        if let Some(o) = oracle(&p[i], &p[j]) {
            if i != j && t[i][j] != o { fail("ORDER BY disagrees with SPARQL's '<' on comparable values", format!("{} vs {}: ORDER BY says {:?}, the values compare {:?}", p[i].name, p[j].name, t[i][j], o)); }
            let (a, b) = (nt(p[i].term.as_ref().unwrap()), nt(p[j].term.as_ref().unwrap()));
            let lt = ask(&format!("ASK {{ FILTER({} < {}) }}", a, b));
            if lt != (o == Ordering::Less) { fail("FILTER(a < b) disagrees with the values", format!("{} < {} gives {}, the values compare {:?}", a, b, lt, o)); }
        }
    }}
    // 4 whole pool, two insertion orders, ASC and DESC
    let fwd: Vec<(usize, &Item, Option<&Item>)> = p.iter().enumerate().map(|(i, x)| (i, x, None)).collect();
    let mut rev = fwd.clone(); rev.reverse();
    for (rows, nm) in [(&fwd, "pool order"), (&rev, "reverse pool order")] {
        for (ord, desc) in [("?x", false), ("ASC(?x)", false), ("DESC(?x)", true)] {
            let out = run_query(rows, ord);
            let mut sorted = out.clone(); sorted.sort();
            if sorted != (0..p.len()).collect::<Vec<_>>() { fail("ORDER BY output is not a permutation of the solutions", format!("{} {}: {:?}", nm, ord, out)); }
            for i in 0..out.len() { for j in i + 1..out.len() {
                let o = t[out[i]][out[j]];
                if (!desc && o == Ordering::Greater) || (desc && o == Ordering::Less) { fail("ORDER BY output is not sorted by its own order", format!("{} ORDER BY {}: {} appears before {}", nm, ord, p[out[i]].name, p[out[j]].name)); }
            }}
        }
    }
    // 5 two keys: k in {1, 01 (equal values), 2}, x from a small sub-pool; all four ASC/DESC combinations
    let ks: Vec<&Item> = p.iter().filter(|i| matches!(i.name.as_str(), n if n.contains("\"1\", IriRef(\"xsd:integer") || n.contains("\"01\"") || n.contains("\"2\", IriRef(\"xsd:integer"))).collect();
    let xs: Vec<usize> = (0..p.len()).filter(|i| p[*i].term.is_some() && i % 3 != 0).collect();
    if ks.len() != 3 { fail("internal: key items not found", format!("{}", ks.len())); }
    let mut rows: Vec<(usize, &Item, Option<&Item>)> = vec![];
    let mut meta: Vec<(usize, usize)> = vec![]; // row -> (k index in p, x index in p)
    for (ki, k) in ks.iter().enumerate() { for xi in &xs {
        let kidx = p.iter().position(|q| q.name == k.name).unwrap();
        rows.push((rows.len(), &p[*xi], Some(*k)));
        meta.push((kidx, *xi));
        let _ = ki;
    }}
    rows.reverse();
    // a first key without value for every row (variable never bound / expression raising an error): the second key decides alone
    for (ord, xd) in [("?nope ?x", false), ("?nope DESC(?x)", true), ("DESC(?nope) ?x", false), ("(?k + \"x\") ?x", false), ("?nope ?nope2 DESC(?x)", true)] {
        let out = run_query(&rows, ord);
        if out.len() != rows.len() { fail("ORDER BY with a valueless first key lost or duplicated rows", format!("{}: {} of {}", ord, out.len(), rows.len())); }
        for i in 0..out.len() { for j in i + 1..out.len() {
            let (x1, x2) = (meta[out[i]].1, meta[out[j]].1);
            let mut o = t[x1][x2]; if xd { o = o.reverse(); }
            if o == Ordering::Greater { fail("ORDER BY: a key without value on both sides must leave the decision to the later keys", format!("ORDER BY {}: {} appears before {}", ord, p[x1].name, p[x2].name)); }
        }}
    }
    for (ord, kd, xd) in [("?k ?x", false, false), ("?k DESC(?x)", false, true), ("DESC(?k) ?x", true, false), ("DESC(?k) DESC(?x)", true, true)] {
        let out = run_query(&rows, ord);
        if out.len() != rows.len() { fail("two-key ORDER BY lost or duplicated rows", format!("{}: {} of {}", ord, out.len(), rows.len())); }
        for i in 0..out.len() { for j in i + 1..out.len() {
            let (k1, x1) = meta[out[i]]; let (k2, x2) = meta[out[j]];
            let mut o = t[k1][k2]; if kd { o = o.reverse(); }
            if o == Ordering::Equal { o = t[x1][x2]; if xd { o = o.reverse(); } }
            if o == Ordering::Greater { fail("two-key ORDER BY: later keys do not break ties / DESC not applied per key", format!("ORDER BY {}: ({}, {}) appears before ({}, {})", ord, p[k1].name, p[x1].name, p[k2].name, p[x2].name)); }
        }}
    }
    // 6 expression keys: ORDER BY COALESCE(?x - ?d, ?x) gives a COMPUTED value for the rows that have ?d and the
    // RAW bound term for the others; the order on such mixed keys is still a total preorder that agrees with the
    // numeric value wherever both keys are numeric
    let expr_rows = expression_keys();
    println!("{{\"ok\":true,\"pool\":{},\"pairs\":{},\"two_key_rows\":{},\"expression_key_rows\":{}}}", p.len(), p.len() * p.len(), rows.len(), expr_rows);
}
