//! Replay / small-domain enumerator for C15 on the real sophia_api: every outcome sequence of length <= 4 over
//! {end, Ok(1..=3), Err(7)}, seven adapter chains, every sink fault position; whole-stream and step-wise driving.
use sophia_api::source::{Source, StreamError};
use std::fmt;

#[derive(Debug, Clone, Copy, PartialEq)] struct EA(u8);
impl fmt::Display for EA { fn fmt(&self, f: &mut fmt::Formatter) -> fmt::Result { write!(f, "EA") } }
impl std::error::Error for EA {}
#[derive(Debug, Clone, Copy, PartialEq)] struct EB(u8);
impl fmt::Display for EB { fn fmt(&self, f: &mut fmt::Formatter) -> fmt::Result { write!(f, "EB") } }
impl std::error::Error for EB {}

#[derive(Debug, Clone, Copy, PartialEq)] enum O { End, Ok(u8), Err(u8) }

fn pred(x: &u8) -> bool { *x != 2 }
fn mapf(x: u8) -> u8 { x + 10 }
fn fmap(x: u8) -> Option<u8> { if x % 2 == 1 { Some(x * 3) } else { None } }

fn expect(chain: usize, x: u8) -> Option<u8> {
    match chain {
        0 => Some(x),
        1 => if pred(&x) { Some(x) } else { None },
        2 => Some(mapf(x)),
        3 => fmap(x),
        4 => if pred(&x) { Some(mapf(x)) } else { None },
        5 => { let y = mapf(x); fmap(y) }
        _ => fmap(x).filter(pred).map(mapf),
    }
}

fn drive(chain: usize, outs: &[O], fail_at: usize, stepwise: bool) -> (Vec<u8>, Result<(), StreamError<EA, EB>>) {
    let it = outs.to_vec().into_iter().take_while(|o| *o != O::End).map(|o| match o { O::Ok(v) => Ok(v), O::Err(e) => Err(EA(e)), O::End => unreachable!() });
    let mut got = vec![];
    let mut n = 0;
    let mut sink = |x: u8| -> Result<(), EB> { if n == fail_at { return Err(EB(99)); } n += 1; got.push(x); Ok(()) };
    macro_rules! go { ($s:expr) => {{ let mut s = $s; if stepwise { loop { match s.try_for_some_item(&mut sink) { Ok(true) => {}, Ok(false) => break Ok(()), Err(e) => break Err(e) } } } else { s.try_for_each_item(&mut sink) } }} }
    let r = match chain {
        0 => go!(it),
        1 => go!(it.filter_items(pred)),
        2 => go!(it.map_items(mapf)),
        3 => go!(it.filter_map_items(fmap)),
        4 => go!(it.filter_items(pred).map_items(mapf)),
        5 => go!(it.map_items(mapf).filter_map_items(fmap)),
        _ => go!(it.filter_map_items(fmap).filter_items(pred).map_items(mapf)),
    };
    drop(sink);
    (got, r)
}

fn main() {
    let alpha = [O::End, O::Ok(1), O::Ok(2), O::Ok(3), O::Err(7)];
    let mut n = 0u64;
    let mut seqs: Vec<Vec<O>> = vec![vec![]];
    for _ in 0..4 { let mut nx = vec![]; for s in &seqs { for a in alpha { let mut t = s.clone(); t.push(a); nx.push(t); } } seqs.extend(nx.clone()); seqs.sort_by_key(|s| format!("{:?}", s)); seqs.dedup(); }
    for outs in &seqs { for chain in 0..7 { for fail_at in 0..5 { for stepwise in [false, true] {
        n += 1;
        let (got, r) = drive(chain, outs, fail_at, stepwise);
        let mut want = vec![]; let mut verdict: Result<(), StreamError<EA, EB>> = Ok(());
        for o in outs { match o {
            O::End => break,
            O::Err(e) => { verdict = Err(StreamError::SourceError(EA(*e))); break; }
            O::Ok(v) => if let Some(y) = expect(chain, *v) { if want.len() == fail_at { verdict = Err(StreamError::SinkError(EB(99))); break; } want.push(y); }
        } }
        let same = match (&r, &verdict) { (Ok(()), Ok(())) => true, (Err(StreamError::SourceError(a)), Err(StreamError::SourceError(b))) => a == b, (Err(StreamError::SinkError(a)), Err(StreamError::SinkError(b))) => a == b, _ => false };
        if got != want || !same {
            println!("{{\"mismatch\":\"consumer saw {:?} / result {:?}; expected {:?} / {:?}\",\"outcomes\":\"{:?}\",\"chain\":{},\"sink_fails_at\":{},\"stepwise\":{}}}", got, r.as_ref().map_err(|e| format!("{:?}", e)), want, verdict.as_ref().map_err(|e| format!("{:?}", e)), outs, chain, fail_at, stepwise);
            std::process::exit(1);
        }
    }}}}
    // IntoIterator forms of the map / filter_map adapters, over one-at-a-time and BATCHING sources
    {
        struct Batch { outs: Vec<O>, pos: usize, batch: usize }
        impl Source for Batch {
            type Item<'x> = u8;
            type Error = EA;
            fn try_for_some_item<E, F>(&mut self, mut f: F) -> Result<bool, StreamError<EA, E>>
            where E: std::error::Error + Send + Sync + 'static, F: FnMut(u8) -> Result<(), E> {
                if self.pos >= self.outs.len() || self.outs[self.pos] == O::End { self.pos = self.outs.len(); return Ok(false); }
                let mut k = 0;
                while k < self.batch && self.pos < self.outs.len() {
                    let o = self.outs[self.pos];
                    if o == O::End { self.pos = self.outs.len(); break; }
                    self.pos += 1;
                    match o { O::Err(e) => return Err(StreamError::SourceError(EA(e))), O::Ok(v) => f(v).map_err(StreamError::SinkError)?, O::End => unreachable!() }
                    k += 1;
                }
                Ok(true)
            }
        }
        for outs in &seqs { for batch in 1..=3usize { for which in 0..2 {
            n += 1;
            let src = Batch { outs: outs.clone(), pos: 0, batch };
            // a consumer that stops pulling at the first error (what happens if it goes on is its own business)
            let mut got: Vec<Result<u8, EA>> = vec![];
            if which == 0 { for x in src.map_items(mapf).into_iter() { let e = x.is_err(); got.push(x); if e { break; } } }
            else { for x in src.filter_map_items(fmap).into_iter() { let e = x.is_err(); got.push(x); if e { break; } } }
            let mut want: Vec<Result<u8, EA>> = vec![];
            for o in outs { match o {
                O::End => break,
                O::Err(e) => { want.push(Err(EA(*e))); break; }
                O::Ok(v) => { let y = if which == 0 { Some(mapf(*v)) } else { fmap(*v) }; if let Some(y) = y { want.push(Ok(y)); } }
            } }
            if got != want {
                println!("{{\"mismatch\":\"{}_items(..).into_iter() yields {:?}, expected {:?}\",\"outcomes\":\"{:?}\",\"batch\":{}}}", if which == 0 { "map" } else { "filter_map" }, got, want, outs, batch);
                std::process::exit(1);
            }
            // whole-stream driving of the batching source through a chain
            for fail_at in 0..4usize {
                n += 1;
                let mut seen = vec![]; let mut calls = 0;
                let r = Batch { outs: outs.clone(), pos: 0, batch }.filter_items(pred).map_items(mapf).try_for_each_item(|x| -> Result<(), EB> { calls += 1; if seen.len() == fail_at { return Err(EB(99)); } seen.push(x); Ok(()) });
                let mut w = vec![]; let mut verdict: Result<(), StreamError<EA, EB>> = Ok(());
                for o in outs { match o {
                    O::End => break,
                    O::Err(e) => { verdict = Err(StreamError::SourceError(EA(*e))); break; }
                    O::Ok(v) => if pred(v) { if w.len() == fail_at { verdict = Err(StreamError::SinkError(EB(99))); break; } w.push(mapf(*v)); }
                } }
                let same = match (&r, &verdict) { (Ok(()), Ok(())) => true, (Err(StreamError::SourceError(a)), Err(StreamError::SourceError(b))) => a == b, (Err(StreamError::SinkError(a)), Err(StreamError::SinkError(b))) => a == b, _ => false };
                if seen != w || !same || calls != w.len() + if matches!(verdict, Err(StreamError::SinkError(_))) { 1 } else { 0 } {
                    println!("{{\"mismatch\":\"batching source through filter+map: consumer saw {:?} in {} calls, expected {:?}\",\"outcomes\":\"{:?}\",\"batch\":{},\"sink_fails_at\":{}}}", seen, calls, w, outs, batch, fail_at);
                    std::process::exit(1);
                }
            }
        }}}
    }
    // Rio-backed parser sources: multi-triple statements, sink fault at every position, whole-stream and step-wise
    {
        use sophia_api::source::TripleSource;
        use sophia_api::triple::Triple;
        use sophia_api::term::Term;
        let doc = "@prefix : <x:> .\n:s0 :p :o0 .\n:s1 :p :o1, :o2, :o3 ; :q :o4 .\n:s2 :p :o5 .\n";
        for bad_tail in [false, true] {
            let doc = if bad_tail { format!("{} :s3 :p .\n", doc) } else { doc.to_string() };
            for fail_at in 0..8usize { for stepwise in [false, true] {
                n += 1;
                let mut got: Vec<String> = vec![];
                let mut calls = 0usize;
                let mut src = sophia_turtle::parser::turtle::parse_str(&doc);
                let r = {
                    let mut cb = |o: String| -> Result<(), EB> { calls += 1; if got.len() == fail_at { return Err(EB(42)); } got.push(o); Ok(()) };
                    if stepwise {
                        loop { match src.try_for_some_triple(|t| cb(t.o().iri().unwrap().as_str().to_string())) { Ok(true) => {}, Ok(false) => break Ok(()), Err(e) => break Err(e) } }
                    } else {
                        src.try_for_each_triple(|t| cb(t.o().iri().unwrap().as_str().to_string()))
                    }
                };
                let all = ["x:o0", "x:o1", "x:o2", "x:o3", "x:o4", "x:o5"];
                let want: Vec<String> = all.iter().take(fail_at.min(6)).map(|s| s.to_string()).collect();
                let ok_result = if fail_at < 6 { matches!(&r, Err(StreamError::SinkError(EB(42)))) && calls == fail_at + 1 }
                    else if bad_tail { matches!(&r, Err(StreamError::SourceError(_))) && calls == 6 } else { r.is_ok() && calls == 6 };
                if got != want || !ok_result {
                    println!("{{\"mismatch\":\"Turtle source: consumer saw {:?} in {} calls, result ok={} ; expected prefix {:?}\",\"sink_fails_at\":{},\"stepwise\":{},\"syntax_error_at_end\":{}}}", got, calls, r.is_ok(), want, fail_at, stepwise, bad_tail);
                    std::process::exit(1);
                }
            }}
        }
    }
    // the TripleSource / QuadSource convenience layers over iterators of Results: every outcome sequence of length
    // <= 4, sink fault at every position; each item passing the filters exactly once, in order; errors keep side and value
    {
        use sophia_api::source::{QuadSource, TripleSource};
        use sophia_api::term::{IriRef, SimpleTerm, Term};
        use sophia_api::triple::Triple;
        use sophia_api::quad::Quad;
        type T = SimpleTerm<'static>;
        fn it(i: u8) -> T { SimpleTerm::Iri(IriRef::new_unchecked(format!("x:{}", i).into())) }
        fn val<X: Term>(t: X) -> u8 { t.iri().unwrap().as_str()[2..].parse().unwrap() }
        let tr = |outs: &[O]| outs.to_vec().into_iter().take_while(|o| *o != O::End).map(|o| match o { O::Ok(v) => Ok([it(v), it(0), it(v)]), O::Err(e) => Err(EA(e)), O::End => unreachable!() });
        let qd = |outs: &[O]| outs.to_vec().into_iter().take_while(|o| *o != O::End).map(|o| match o { O::Ok(v) => Ok(([it(v), it(0), it(v)], if v % 2 == 0 { None } else { Some(it(9)) })), O::Err(e) => Err(EA(e)), O::End => unreachable!() });
        for outs in &seqs { for fail_at in 0..5usize { for variant in 0..8 {
            n += 1;
            let mut got: Vec<u8> = vec![];
            let mut calls = 0usize;
            let keep = |v: u8| -> Option<u8> { match variant { 0 | 4 | 5 => Some(v), 1 | 6 => if pred(&v) { Some(v) } else { None }, 2 => Some(mapf(v)), 3 | 7 => fmap(v), _ => unreachable!() } };
            let r: Result<(), StreamError<EA, EB>> = {
                let mut sink = |x: u8| -> Result<(), EB> { calls += 1; if got.len() == fail_at { return Err(EB(99)); } got.push(x); Ok(()) };
                match variant {
                    0 => tr(outs).try_for_each_triple(|t| sink(val(t.s()))),
                    1 => tr(outs).filter_triples(|t| pred(&val(t.s()))).try_for_each_triple(|t| sink(val(t.s()))),
                    2 => tr(outs).map_triples(|t| mapf(val(t.s()))).try_for_each_item(|x| sink(x)),
                    3 => tr(outs).filter_map_triples(|t| fmap(val(t.s()))).try_for_each_item(|x| sink(x)),
                    4 => tr(outs).to_quads().try_for_each_quad(|q| { if q.g().is_some() { return sink(200); } sink(val(q.s())) }),
                    5 => qd(outs).try_for_each_quad(|q| sink(val(q.o()))),
                    6 => qd(outs).filter_quads(|q| pred(&val(q.s()))).to_triples().try_for_each_triple(|t| sink(val(t.o()))),
                    _ => { let mut s = qd(outs).filter_map_quads(|q| fmap(val(q.s()))); loop { match s.try_for_some_item(|x| sink(x)) { Ok(true) => {}, Ok(false) => break Ok(()), Err(e) => break Err(e) } } }
                }
            };
            let mut want = vec![]; let mut verdict: Result<(), StreamError<EA, EB>> = Ok(()); let mut wcalls = 0;
            for o in outs { match o {
                O::End => break,
                O::Err(e) => { verdict = Err(StreamError::SourceError(EA(*e))); break; }
                O::Ok(v) => if let Some(y) = keep(*v) { wcalls += 1; if want.len() == fail_at { verdict = Err(StreamError::SinkError(EB(99))); break; } want.push(y); }
            } }
            let same = match (&r, &verdict) { (Ok(()), Ok(())) => true, (Err(StreamError::SourceError(a)), Err(StreamError::SourceError(b))) => a == b, (Err(StreamError::SinkError(a)), Err(StreamError::SinkError(b))) => a == b, _ => false };
            if got != want || !same || calls != wcalls {
                println!("{{\"mismatch\":\"triple/quad layer variant {}: consumer saw {:?} in {} calls / result {:?}; expected {:?} in {} calls / {:?}\",\"outcomes\":\"{:?}\",\"sink_fails_at\":{}}}", variant, got, calls, r.as_ref().map_err(|e| format!("{:?}", e)), want, wcalls, verdict.as_ref().map_err(|e| format!("{:?}", e)), outs, fail_at);
                std::process::exit(1);
            }
        }}}
        // for_each_* (infallible sink) and size hints never under-report the remaining items' upper bound
        for outs in &seqs {
            n += 1;
            let mut seen = vec![];
            let r = tr(outs).for_each_triple(|t| seen.push(val(t.s())));
            let mut want = vec![]; let mut err = None;
            for o in outs { match o { O::End => break, O::Err(e) => { err = Some(EA(*e)); break; } O::Ok(v) => want.push(*v) } }
            if seen != want || r.err() != err { println!("{{\"mismatch\":\"for_each_triple saw {:?} expected {:?}\",\"outcomes\":\"{:?}\"}}", seen, want, outs); std::process::exit(1); }
            let total = outs.iter().take_while(|o| **o != O::End).count();
            let (_, hi) = tr(outs).filter_triples(|_| true).size_hint_triples();
            if let Some(h) = hi { if h < total.min(want.len()) { println!("{{\"mismatch\":\"size_hint upper bound {} below the {} items delivered\",\"outcomes\":\"{:?}\"}}", h, want.len(), outs); std::process::exit(1); } }
        }
    }
    // real stores as consumers: after a source failure at item k the store holds exactly the k items before it
    // (insert_all / collect), and the error is a source error carrying the original value; remove_all likewise
    {
        use sophia_api::graph::{CollectibleGraph, Graph, MutableGraph};
        use sophia_api::dataset::{CollectibleDataset, Dataset, MutableDataset};
        use sophia_api::source::{QuadSource, TripleSource};
        use sophia_api::term::{IriRef, SimpleTerm};
        use sophia_inmem::dataset::{FastDataset, LightDataset};
        use sophia_inmem::graph::{FastGraph, LightGraph};
        use std::collections::{BTreeSet, HashSet};
        type T = SimpleTerm<'static>;
        fn it(i: usize) -> T { SimpleTerm::Iri(IriRef::new_unchecked(format!("x:t{}", i).into())) }
        for len in 0..5usize { for k in 0..=len {
            // items 0..len, the source fails INSTEAD of item k (k == len: no failure)
            let triples = move || (0..len).map(move |i| if i == k { Err(EA(7)) } else { Ok([it(i), it(100), it(i + 1)]) });
            let quads = move || (0..len).map(move |i| if i == k { Err(EA(7)) } else { Ok(([it(i), it(100), it(i + 1)], if i % 2 == 0 { None } else { Some(it(200)) })) });
            macro_rules! graph { ($ty:ty, $name:expr) => {{
                n += 1;
                let mut g = <$ty>::default();
                let r = g.insert_all(triples());
                let held = g.triples().count();
                let ok = if k < len { matches!(&r, Err(StreamError::SourceError(EA(7)))) && held == k } else { matches!(&r, Ok(c) if *c == len) && held == len };
                if !ok { println!("{{\"mismatch\":\"{}::insert_all: after a source failure at item {} of {} the graph holds {} triples, result {:?}\"}}", $name, k, len, held, r.map_err(|e| format!("{:?}", e))); std::process::exit(1); }
                // remove_all from a full graph
                let mut g = <$ty>::default();
                for i in 0..len { MutableGraph::insert(&mut g, it(i), it(100), it(i + 1)).unwrap(); }
                let r = g.remove_all(triples());
                let held = g.triples().count();
                let ok = if k < len { matches!(&r, Err(StreamError::SourceError(EA(7)))) && held == len - k } else { matches!(&r, Ok(c) if *c == len) && held == 0 };
                if !ok { println!("{{\"mismatch\":\"{}::remove_all: after a source failure at item {} of {} the graph still holds {} triples, result {:?}\"}}", $name, k, len, held, r.map_err(|e| format!("{:?}", e))); std::process::exit(1); }
                // collect
                let r: Result<$ty, _> = triples().collect_triples();
                let ok = if k < len { matches!(&r, Err(StreamError::SourceError(EA(7)))) } else { matches!(&r, Ok(g) if g.triples().count() == len) };
                if !ok { println!("{{\"mismatch\":\"collect_triples::<{}> with a source failure at item {} of {}: wrong result\"}}", $name, k, len); std::process::exit(1); }
            }}}
            graph!(FastGraph, "FastGraph"); graph!(LightGraph, "LightGraph"); graph!(HashSet<[T; 3]>, "HashSet<[T;3]>"); graph!(BTreeSet<[T; 3]>, "BTreeSet<[T;3]>"); graph!(Vec<[T; 3]>, "Vec<[T;3]>");
            macro_rules! dataset { ($ty:ty, $name:expr) => {{
                n += 1;
                let mut d = <$ty>::default();
                let r = d.insert_all(quads());
                let held = d.quads().count();
                let ok = if k < len { matches!(&r, Err(StreamError::SourceError(EA(7)))) && held == k } else { matches!(&r, Ok(c) if *c == len) && held == len };
                if !ok { println!("{{\"mismatch\":\"{}::insert_all: after a source failure at item {} of {} the dataset holds {} quads, result {:?}\"}}", $name, k, len, held, r.map_err(|e| format!("{:?}", e))); std::process::exit(1); }
                let r: Result<$ty, _> = quads().collect_quads();
                let ok = if k < len { matches!(&r, Err(StreamError::SourceError(EA(7)))) } else { matches!(&r, Ok(d) if d.quads().count() == len) };
                if !ok { println!("{{\"mismatch\":\"collect_quads::<{}> with a source failure at item {} of {}: wrong result\"}}", $name, k, len); std::process::exit(1); }
            }}}
            dataset!(FastDataset, "FastDataset"); dataset!(LightDataset, "LightDataset"); dataset!(HashSet<sophia_api::quad::Spog<T>>, "HashSet<Spog>"); dataset!(Vec<sophia_api::quad::Spog<T>>, "Vec<Spog>");
        }}
    }
    println!("{{\"ok\":true,\"cases\":{}}}", n);
}
