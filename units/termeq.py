"""U-TERMEQ: the default `Term::eq` (api/src/term.rs) and `Triple::eq` / `Triple::eq_spo` (api/src/triple.rs),
extracted for Verus on every run.

Declared rewrites (all counted; any miscount = LostAnchor = the unit is not generated):
  R8  trait default method -> free function: `fn eq<T: Term>(&self, other: T) -> bool` becomes
      `fn term_eq<S: Term, T: Term>(this: &S, other: T)`, `self` -> `this` (likewise for the two Triple methods, which
      are specialised to `[S; 3]` as in R6: Verus cannot check termination of recursion that changes the generic
      instantiation)
  R0  `a.x() == b.x()` on Option<string-like> -> opt_eq(&a.x(), &b.x());  `tag1 == tag2` -> tag_eq(&tag1, &tag2);
      BorrowTerm<'_> identified with Self in `triple()`
  R6  `.eq(` calls between Term / Triple values -> the extracted functions
"""
import os
import re
from engine import rsx

TERM_SRC = "api/src/term.rs"
TRIPLE_SRC = "api/src/triple.rs"
HERE = os.path.dirname(os.path.abspath(__file__))

TERM_EQ_SPEC = """
    requires
        wf(this.tv()), wf(other.tv()),
    ensures
        r == teq(this.tv(), other.tv()),
    decreases depth(this.tv()), 0nat,
"""
TRIPLE_EQ_SPEC = """
    requires
        wf(this.sv()), wf(this.pv()), wf(this.ov()), wf(other.sv()), wf(other.pv()), wf(other.ov()),
    ensures
        r == (teq(this.sv(), other.sv()) && teq(this.pv(), other.pv()) && teq(this.ov(), other.ov())),
    decreases depth(this.sv()) + depth(this.pv()) + depth(this.ov()), 2nat,
"""
EQ_SPO_SPEC = """
    requires
        wf(this.sv()), wf(this.pv()), wf(this.ov()), wf(s.tv()), wf(p.tv()), wf(o.tv()),
    ensures
        r == (teq(this.sv(), s.tv()) && teq(this.pv(), p.tv()) && teq(this.ov(), o.tv())),
    decreases depth(this.sv()) + depth(this.pv()) + depth(this.ov()), 1nat,
"""


def build(repo, canary=None):
    info = {"cuts": {}, "rewrites": {}, "assumptions": []}
    tsrc = open(os.path.join(repo, TERM_SRC)).read()
    psrc = open(os.path.join(repo, TRIPLE_SRC)).read()
    eq = rsx.cut_fn(tsrc, "eq", within=r"pub trait Term\b")
    teq = rsx.cut_fn(psrc, "eq", within=r"pub trait Triple\b")
    spo = rsx.cut_fn(psrc, "eq_spo", within=r"pub trait Triple\b")
    info["cuts"][TERM_SRC + "::Term::eq"] = rsx.sha(eq)
    info["cuts"][TRIPLE_SRC + "::Triple::eq"] = rsx.sha(teq)
    info["cuts"][TRIPLE_SRC + "::Triple::eq_spo"] = rsx.sha(spo)
    rw = info["rewrites"]
    # drop attributes (#[inline]) and doc comments kept by cut_fn? cut_fn starts at the fn line: nothing to drop.
    # ---- Term::eq
    eq, n = rsx.replace_code(eq, r"fn eq<T: Term>\(&self, other: T\) -> bool", "pub fn term_eq<S: Term, T: Term>(this: &S, other: T) -> bool", expect=1)
    rw["R8 Term::eq -> free function term_eq"] = n
    eq, n = rsx.replace_code(eq, r"\bself\b", "this")
    rw["R8 self -> this (Term::eq)"] = n
    eq, n = rsx.replace_code(eq, r"this\.triple\(\)\.unwrap\(\)\.eq\(other\.triple\(\)\.unwrap\(\)\)",
                             "triple_eq_arr(&this.triple().unwrap(), other.triple().unwrap())", expect=1)
    rw["R6 quoted-triple comparison -> triple_eq_arr"] = n
    eq, n = rsx.replace_code(eq, r"\b(this\.(\w+)\(\)) == (other\.(\w+)\(\))", lambda m: "opt_eq(&%s, &%s)" % (m.group(1), m.group(3)))
    rw["R0 `this.x() == other.x()` -> opt_eq"] = n
    if n < 4:
        raise rsx.LostAnchor("Term::eq: fewer accessor comparisons than the five term kinds need (%d)" % n)
    eq, n = rsx.replace_code(eq, r"\bif (\w+) == (\w+) =>", r"if tag_eq(&\1, &\2) =>")
    rw["R0 `tag1 == tag2` -> tag_eq"] = n
    if re.search(r"[^=!<>]==[^=]", "".join(ch for ch, m in zip(eq, rsx.code_mask(eq)) if m).replace("k1 == k2", "")):
        raise rsx.RewriteRefused("Term::eq: an `==` between non-stand-in values remains after R0")
    eq = rsx.add_spec(eq, TERM_EQ_SPEC)
    # ---- Triple::eq / eq_spo, specialised to [S; 3] (R6)
    teq, n = rsx.replace_code(teq, r"fn eq<T: Triple>\(&self, other: T\) -> bool", "pub fn triple_eq_arr<S: Term, T: Term>(this: &[S; 3], other: [T; 3]) -> bool", expect=1)
    rw["R8/R6 Triple::eq -> triple_eq_arr on [S; 3]"] = n
    teq, n = rsx.replace_code(teq, r"self\.eq_spo\(", "triple_eq_spo_arr(this, ", expect=1)
    rw["R8 self.eq_spo( -> triple_eq_spo_arr(this,"] = n
    teq = rsx.add_spec(teq, TRIPLE_EQ_SPEC)
    spo, n = rsx.replace_code(spo, r"fn eq_spo<S: Term, P: Term, O: Term>\(&self, s: S, p: P, o: O\) -> bool",
                              "pub fn triple_eq_spo_arr<S: Term, T: Term>(this: &[S; 3], s: T, p: T, o: T) -> bool", expect=1)
    rw["R8/R6 Triple::eq_spo -> triple_eq_spo_arr on [S; 3], the three argument types identified (as at its call site in Triple::eq on arrays)"] = n
    spo, n = rsx.replace_code(spo, r"self\.(\w)\(\)\.eq\((\w)\)", r"term_eq(&this.\1(), \2)")
    rw["R6 `self.x().eq(y)` -> term_eq(&this.x(), y)"] = n
    if re.search(r"\bself\b", "".join(ch for ch, m in zip(spo + teq, rsx.code_mask(spo + teq)) if m)):
        raise rsx.RewriteRefused("Triple::eq / eq_spo: a use of self remains after R8")
    spo = rsx.add_spec(spo, EQ_SPO_SPEC)
    for t in (eq, teq, spo):
        t2 = "".join(ch for ch, m in zip(t, rsx.code_mask(t)) if m)
        if re.search(r"#\[", t2):
            raise rsx.RewriteRefused("attribute inside an extracted function")
    spec = open(os.path.join(HERE, "..", "contracts", "termeq", "spec.rs")).read()
    if canary == "case_sensitive_tags":
        # vacuity canary: against an equality that compares tags case-sensitively the real function must be refuted
        spec = spec.replace("(Some(x), Some(y)) => lower(x) == lower(y),", "(Some(x), Some(y)) => x == y,")
        if "(Some(x), Some(y)) => x == y," not in spec:
            raise rsx.LostAnchor("canary anchor in contracts/termeq/spec.rs")
    text = ("use vstd::prelude::*;\nverus! {\n" + spec + "\nuse TermKind::*;\n\n" + eq + "\n\n" + teq + "\n\n" + spo + "\n} // verus!\nfn main() {}\n")
    info["text"] = text
    info["expect_functions"] = ["term_eq", "triple_eq_arr", "triple_eq_spo_arr", "lemma_teq_refl", "lemma_teq_sym", "lemma_teq_trans"]
    info["assumptions"] += [
        "R0 stand-in trait Term: each accessor (kind, iri, bnode_id, variable, lexical_form, language_tag, datatype, triple) returns the corresponding component of the term's abstract value TermV; BorrowTerm identified with Self",
        "R0 opt_eq: == on Option<IriRef / BnodeId / VarName / MownStr> is equality of the underlying strings (derived PartialEq on transparent wrappers)",
        "R0 tag_eq: LanguageTag == is ASCII-case-insensitive (eq_ignore_ascii_case; checked bounded by kani:c02_langtag_laws)",
        "wf: a language-tagged literal's datatype is rdf:langString",
    ]
    return info
