"""quoted_string extracted with R1/R3 only and no contract: C16's recursion obligation when the proof splice is lost."""
import os
from engine import rsx
from units import esc

def build_bare(repo):
    src = open(os.path.join(repo, esc.SRC)).read()
    cut = rsx.cut_fn(src, "quoted_string")
    fn, _ = rsx.rewrite_enumerate(cut)
    fn, _ = rsx.replace_code(fn, r"unreachable!\(\)", "{ assert(false); vstd::pervasive::unreached() }")
    fn = rsx.add_dummy_loop_decreases(fn)
    spec = open(os.path.join(os.path.dirname(__file__), "..", "contracts", "esc", "spec.rs")).read()
    return {"text": "use vstd::prelude::*;\nuse std::io;\nverus! {\n" + spec + "\n" + fn + "\n} // verus!\nfn main() {}\n",
            "cuts": {esc.SRC + "::quoted_string": rsx.sha(cut)}}
