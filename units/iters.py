"""U-ITER: the five matching iterators of sophia_inmem (graph/_iter.rs, dataset/_iter.rs), extracted for Verus.

Contract of every `next`: it returns the first remaining index tuple accepted by all matchers (as terms), having
consumed exactly the tuples before it, or None after consuming everything when no remaining tuple is accepted.
The functions are verified WITHOUT a `decreases` clause on `next` itself: a self-recursive `next` is rejected
by Verus ("recursive function must have a decreases clause"), which is C16's obligation for these five sites;
the loop carries `decreases rest().len()`.
"""
import os
import re
from engine import rsx

HERE = os.path.dirname(os.path.abspath(__file__))
GITER = "inmem/src/graph/_iter.rs"
DITER = "inmem/src/dataset/_iter.rs"
INDEX = "inmem/src/index.rs"

GAT = re.compile(r"<<TI as TermIndex>::Term as Term>::BorrowTerm<'(a|_)>|<TI::Term as Term>::BorrowTerm<'(a|_)>|<Self::Term as Term>::BorrowTerm<'(a|_)>")
ARRPAT = re.compile(r"let \[(\w+), (\w+), (\w+)(?:, (\w+))?\] = (\*[^;]+);")


def _bump(info, k, n):
    info["rewrites"][k] = info["rewrites"].get(k, 0) + n


def r0_types(text, info, self_ty="TI"):
    def rep(m):
        lt = m.group(1) or m.group(2) or m.group(3)
        who = "Self" if "Self::Term" in m.group(0) else "TI"
        return "BT<'%s, %s>" % (lt, who)
    out, n = GAT.subn(rep, text)
    _bump(info, "R0 GAT BorrowTerm<'a> -> stand-in BT<'a, TI>", n)
    out, n = rsx.replace_code(out, r"\bTerm::eq\(", "term_eq(")
    _bump(info, "R0 Term::eq(a, b) -> term_eq(a, b)", n)
    return out


def r5_array_patterns(text, info):
    def rep(m):
        names = [g for g in m.groups()[:4] if g]
        e = m.group(5)
        return "let tmp = %s; " % e + " ".join("let %s = tmp[%d];" % (nm, i) for i, nm in enumerate(names))
    out, n = ARRPAT.subn(rep, text)
    _bump(info, "R5 array pattern `let [a, b, ..] = *e;` -> indexed lets", n)
    return out


def r2_debug_assert(text, info):
    out, n = rsx.replace_code(text, r"debug_assert!\(", "assert_exec(")
    _bump(info, "R2 debug_assert!(e) -> checked exec assertion", n)
    return out


PRELUDE_EXTRA = """
// R2 target: an executable assertion whose argument must be proved true
pub fn assert_exec(b: bool)
    requires b,
{
}
"""

TERMDATA_SPECS = """
impl<'a, TI, M> TermData<'a, TI, M>
where
    TI: TermIndex,
    TI::Term: 'a,
    M: TermMatcher,
{
    // the cached term and verdict are those of index `i`
    pub open spec fn wf(&self, terms: &TI) -> bool {
        self.t.key() == terms.i2k(self.i) && self.b == self.m.accepts(self.t.key())
    }
"""
TD_UNINIT = """
        requires terms.valid(i),
        ensures r.m == m, r.i == i, r.t.key() == terms.i2k(i), r.b,
"""
TD_NEW = """
        requires terms.valid(i),
        ensures r.m == m, r.i == i, r.wf(terms),
"""
TD_UPDATE = """
        requires terms.valid(i),
        ensures final(self).m == old(self).m, final(self).i == i, final(self).wf(terms),
"""

GND_SPECS = """
impl<'a, TI, M> GraphNameData<'a, TI, M>
where
    TI: GraphNameIndex,
    TI::Term: 'a,
    M: GraphNameMatcher,
{
    spec fn wf(&self, terms: &TI) -> bool {
        gn_key(self.t) == i2gk(terms, self.i) && self.b == self.m.accepts_gn(gn_key(self.t))
    }
"""
GND_UNINIT = """
        requires gvalid(terms, i), eq_is_structural::<TI::Index>(),
        ensures r.m == m, r.i == i, gn_key(r.t) == i2gk(terms, i), r.b,
"""
GND_NEW = """
        requires gvalid(terms, i), eq_is_structural::<TI::Index>(),
        ensures r.m == m, r.i == i, r.wf(terms),
"""
GND_UPDATE = """
        requires gvalid(terms, i), eq_is_structural::<TI::Index>(),
        ensures final(self).m == old(self).m, final(self).i == i, final(self).wf(terms),
"""

GNI_TRAIT = """
pub trait GraphNameIndex: TermIndex {
    spec fn reserved(&self) -> Self::Index;

    fn get_default_graph_index(&self) -> (r: Self::Index)
        ensures r == self.reserved();

@GET_GRAPH_NAME@
}

pub open spec fn i2gk<TI: GraphNameIndex>(terms: &TI, i: TI::Index) -> Option<int> {
    if i == terms.reserved() { None } else { Some(terms.i2k(i)) }
}

pub open spec fn gvalid<TI: GraphNameIndex>(terms: &TI, i: TI::Index) -> bool {
    i == terms.reserved() || terms.valid(i)
}
"""
GET_GRAPH_NAME_SPEC = """
        requires i == self.reserved() || self.valid(i), eq_is_structural::<Self::Index>(),
        ensures gn_key(g) == (if i == self.reserved() { None } else { Some(self.i2k(i)) }),
"""


class It:
    """Description of one iterator: positions = list of (tuple position, field, kind, mode)
    kind: 'term' | 'gn'; mode: 'cond' (cached, updated when the index changes), 'always' (last one), 'fixed' (no matcher)."""

    def __init__(self, name, file, arity, itfield, gni, positions, generics_new, generics_iter, item_ty, out_keys):
        self.name, self.file, self.arity, self.itfield, self.gni = name, file, arity, itfield, gni
        self.positions, self.generics_new, self.generics_iter, self.item_ty, self.out_keys = positions, generics_new, generics_iter, item_ty, out_keys

    # --- spec text -----------------------------------------------------------------------------------
    def matcher_positions(self):
        return [p for p in self.positions if p[3] != "fixed"]

    def acc_expr(self, t, terms="self.terms"):
        es = []
        for pos, field, kind, mode in self.matcher_positions():
            if kind == "term":
                es.append("self.%s.m.accepts(%s.i2k(%s[%d]))" % (field, terms, t, pos))
            else:
                es.append("self.%s.m.accepts_gn(i2gk(%s, %s[%d]))" % (field, terms, t, pos))
        return " && ".join(es)

    def valid_expr(self, t, terms="self.terms"):
        es = []
        for pos, field, kind, mode in self.positions:
            es.append(("%s.valid(%s[%d])" if kind == "term" else "gvalid(%s, %s[%d])") % (terms, t, pos))
        return " && ".join(es)

    def fixed_expr(self, t):
        es = []
        for pos, field, kind, mode in self.positions:
            if mode == "fixed":
                if kind == "term":
                    es.append("self.terms.i2k(%s[%d]) == self.%s.key()" % (t, pos, field))
                else:
                    es.append("i2gk(self.terms, %s[%d]) == gn_key(self.%s)" % (t, pos, field))
        return " && ".join(es) or "true"

    def fixed_params(self):
        ps = []
        for pos, field, kind, mode in self.positions:
            if mode == "fixed":
                ps.append((field, "BT<'a, TI>" if kind == "term" else "GraphName<BT<'a, TI>>"))
        return ps

    def tuple_ok_call(self, obj, t):
        return "%s_tuple_ok(%s.terms, %s%s)" % (self.name, obj, "".join("%s.%s, " % (obj, f) for f, _ in self.fixed_params()), t)

    def free_fns(self):
        ty = "[TI::Index; %d]" % self.arity
        bound = "GraphNameIndex" if self.gni else "TermIndex"
        params = "".join("%s: %s, " % (f, tyy) for f, tyy in self.fixed_params())
        body_valid = self.valid_expr("t", terms="terms")
        body_fixed = self.fixed_expr("t").replace("self.terms", "terms").replace("self.", "")
        return """
pub open spec fn %s_tuple_ok<'a, TI: %s>(terms: &TI, %st: %s) -> bool {
    %s && %s
}
""" % (self.name, bound, params, ty, body_valid, body_fixed)

    def spec_impl(self, where):
        ty = "[TI::Index; %d]" % self.arity
        wf = "\n".join("        &&& self.%s.wf(self.terms)" % f for pos, f, k, m in self.positions if m == "cond")
        same_m = " && ".join("self.%s.m == old(self).%s.m" % (f, f) for pos, f, k, m in self.matcher_positions())
        same_fixed = " && ".join("self.%s == old(self).%s" % (f, f) for pos, f, k, m in self.positions if m == "fixed")
        self.same = same_m + (" && " + same_fixed if same_fixed else "")
        return """
impl<%s> %s<%s>
%s
{
    pub closed spec fn rest(&self) -> Seq<%s> { self.%s.rest() }
    // a tuple is accepted iff every matcher accepts the term (graph name) its index denotes
    pub closed spec fn ok(&self) -> spec_fn(%s) -> bool { |t: %s| %s }
    pub closed spec fn out_ok(&self, r: %s, t: %s) -> bool { %s }
    pub closed spec fn inv(&self) -> bool {
%s
        &&& forall|j: int| 0 <= j < self.%s.rest().len() ==> #[trigger] %s
    }
    pub closed spec fn frame(&self, o: &Self) -> bool { self.terms == o.terms && %s }
""" % (self.generics_iter[0], self.name, self.generics_iter[1], where, ty, self.itfield, ty, ty, self.acc_expr("t"),
            self.item_ty, ty, self.out_keys, wf or "        &&& true", self.itfield, self.tuple_ok_call("self", "self.%s.rest()[j]" % self.itfield),
            self.same.replace("old(self)", "o"))


NEXT_SPEC = """
        requires old(self).inv(), eq_is_structural::<TI::Index>(),
        ensures
            final(self).inv(), final(self).frame(old(self)),
            ({
                let rest0 = old(self).rest();
                let n = first_match(rest0, old(self).ok());
                &&& 0 <= n <= rest0.len()
                &&& n == rest0.len() ==> r is None && final(self).rest().len() == 0
                &&& n < rest0.len() ==> r is Some
                    && final(self).rest() == rest0.subrange(n + 1, rest0.len() as int)
                    && old(self).out_ok(r->Some_0, rest0[n])
            }),
"""


def loop_inv(it):
    return """
            invariant
                eq_is_structural::<TI::Index>(),
                self.inv(), self.frame(old(self)),
                0 <= c <= rest0.len(), rest0 == old(self).rest(),
                self.%s.rest() == rest0.subrange(c, rest0.len() as int),
                forall|j: int| 0 <= j < c ==> !(old(self).ok())(#[trigger] rest0[j]),
            decreases self.%s.rest().len(),
""" % (it.itfield, it.itfield)


def after_fetch(it):
    return """
            proof {
                assert(tmp == rest0[c]);
                assert(self.tuple_ok(self.%s.rest()[0])) by { assert(old(self).rest() == rest0); }
                c = c + 1;
            }""" % it.itfield


def before_fetch(it):
    # facts needed right after the fetch are easier to state before it (the iterator state is still the loop-head one)
    return """
            proof {
                if self.%(f)s.rest().len() == 0 {
                    assert(c == rest0.len());
                    lemma_first_match(rest0, old(self).ok(), rest0.len() as int);
                } else {
                    assert(self.%(f)s.rest()[0] == rest0[c]);
                    assert(%(ok0)s);
                    let nr = self.%(f)s.rest().subrange(1, self.%(f)s.rest().len() as int);
                    assert(nr == rest0.subrange(c + 1, rest0.len() as int));
                    assert forall|j: int| 0 <= j < nr.len() implies #[trigger] %(okj)s by {
                        assert(nr[j] == self.%(f)s.rest()[j + 1]);
                        assert(%(okj1)s);
                    }
                }
            }""" % {"f": it.itfield, "ok0": it.tuple_ok_call("self", "self.%s.rest()[0]" % it.itfield),
                   "okj": it.tuple_ok_call("self", "nr[j]"), "okj1": it.tuple_ok_call("self", "self.%s.rest()[j + 1]" % it.itfield)}


def build_next(it, src, info, header, bare=False):
    nxt = rsx.cut_fn(src, "next", within=header)
    info["cuts"][it.file + "::" + it.name + "::next"] = rsx.sha(nxt)
    nxt = r2_debug_assert(r5_array_patterns(r0_types(nxt, info), info), info)
    nxt, n = rsx.replace_code(nxt, r"Option<Self::Item>", "Option<%s>" % it.item_ty, expect=1)
    _bump(info, "R0 `Self::Item` expanded", n)
    if bare:
        # no contract, no loop spec: only Verus' structural termination rule is exercised
        # ("recursive function must have a decreases clause")
        return rsx.add_dummy_loop_decreases(nxt)
    nxt = rsx.add_spec(nxt, NEXT_SPEC)
    nxt = rsx.add_loop_spec(nxt, 0, loop_inv(it), kind="loop")
    nxt = rsx.insert_before_line(nxt, re.compile(r"^\s*loop\s*$"),
                                 "        let ghost rest0 = self.%s.rest();\n        let ghost mut c: int = 0;" % it.itfield, expect_count=1)
    nxt = rsx.insert_after_line(nxt, "self.%s.next()?;" % it.itfield, """
            proof {
                assert(tmp == rest0[c]);
                assert(%s);
                c = c + 1;
            }""" % it.tuple_ok_call("self", "tmp"), expect_count=1)
    nxt = rsx.insert_before_line(nxt, "self.%s.next()?;" % it.itfield, before_fetch(it), expect_count=1)
    nxt = rsx.insert_before_line(nxt, re.compile(r"^\s*return Some\("), "\n                proof { lemma_first_match(rest0, old(self).ok(), c - 1); }", expect_count=1)
    return nxt


def _pub(fn):
    return re.sub(r"^(\s*)(pub )?fn ", r"\1pub fn ", fn, count=1, flags=re.M)


def _where(generic_bounds):
    return "where\n" + "".join("    %s,\n" % b for b in generic_bounds)


def _termdata(src, info):
    parts = []
    td_struct = rsx.cut_item(src, r"pub struct TermData\b")
    info["cuts"][GITER + "::struct TermData"] = rsx.sha(td_struct)
    parts.append(r0_types(td_struct, info))
    fns = []
    for name, spec in (("uninit", TD_UNINIT), ("new", TD_NEW), ("update", TD_UPDATE)):
        f = rsx.cut_fn(src, name, within=r"impl<'a, TI, M> TermData<'a, TI, M>")
        info["cuts"][GITER + "::TermData::" + name] = rsx.sha(f)
        f = rsx.add_spec(r0_types(f, info), spec, ret=None if name == "update" else "r")
        fns.append(f)
    parts.append(TERMDATA_SPECS + "\n".join(fns) + "\n}\n")
    return parts


SPO = It("SpoMatchingIterator", GITER, 3, "spo", False,
         [(0, "s", "term", "cond"), (1, "p", "term", "cond"), (2, "o", "term", "always")],
         None, ("'a, TI, SM, PM, OM", "'a, TI, SM, PM, OM"), "[BT<'a, TI>; 3]",
         "r[0].key() == self.terms.i2k(t[0]) && r[1].key() == self.terms.i2k(t[1]) && r[2].key() == self.terms.i2k(t[2])")
BC = It("BcMatchingIterator", GITER, 3, "abc", False,
        [(0, "a", "term", "fixed"), (1, "b", "term", "cond"), (2, "c", "term", "always")],
        None, ("'a, TI, BM, CM", "'a, TI, BM, CM"), "[BT<'a, TI>; 3]",
        "r[0].key() == self.terms.i2k(t[0]) && r[1].key() == self.terms.i2k(t[1]) && r[2].key() == self.terms.i2k(t[2])")
GSPO = It("GspoMatchingIterator", DITER, 4, "gspo", True,
          [(0, "g", "gn", "cond"), (1, "s", "term", "cond"), (2, "p", "term", "cond"), (3, "o", "term", "always")],
          None, ("'a, TI, GM, SM, PM, OM", "'a, TI, GM, SM, PM, OM"), "(GraphName<BT<'a, TI>>, [BT<'a, TI>; 3])",
          "gn_key(r.0) == i2gk(self.terms, t[0]) && r.1[0].key() == self.terms.i2k(t[1]) && r.1[1].key() == self.terms.i2k(t[2]) && r.1[2].key() == self.terms.i2k(t[3])")
BCD = It("BcdMatchingIterator", DITER, 4, "abcd", True,
         [(0, "a", "gn", "fixed"), (1, "b", "gn", "cond"), (2, "c", "gn", "cond"), (3, "d", "gn", "always")],
         None, ("'a, TI, BM, CM, DM", "'a, TI, BM, CM, DM"), "[GraphName<BT<'a, TI>>; 4]",
         "gn_key(r[0]) == i2gk(self.terms, t[0]) && gn_key(r[1]) == i2gk(self.terms, t[1]) && gn_key(r[2]) == i2gk(self.terms, t[2]) && gn_key(r[3]) == i2gk(self.terms, t[3])")
CD = It("CdMatchingIterator", DITER, 4, "abcd", True,
        [(0, "a", "gn", "fixed"), (1, "b", "gn", "fixed"), (2, "c", "gn", "cond"), (3, "d", "gn", "always")],
        None, ("'a, TI, CM, DM", "'a, TI, CM, DM"), "[GraphName<BT<'a, TI>>; 4]",
        "gn_key(r[0]) == i2gk(self.terms, t[0]) && gn_key(r[1]) == i2gk(self.terms, t[1]) && gn_key(r[2]) == i2gk(self.terms, t[2]) && gn_key(r[3]) == i2gk(self.terms, t[3])")


def _aliases(src, info):
    """type aliases of the file (R0 applied); Gspo is the api alias (GraphName<T>, [T; 3])."""
    out = []
    for m in re.finditer(r"^(?:pub )?type \w+<[^=]*> = .*;$", src, re.M):
        out.append(r0_types(m.group(0), info))
    return out


def _iterator(it, src, info, bounds, bare=False):
    parts = []
    st = rsx.cut_item(src, r"pub struct " + it.name + r"\b")
    info["cuts"][it.file + "::struct " + it.name] = rsx.sha(st)
    parts.append(r0_types(st, info))
    g = it.generics_iter[1]
    hdr_iter = r"impl<" + re.escape(g) + r"> Iterator for " + it.name + "<" + re.escape(g) + ">"
    nxt = build_next(it, src, info, hdr_iter, bare=bare)
    if bare:
        # every other method of the type (helpers a refactoring may have introduced), except the boxed
        # constructor (Box<dyn Iterator>, closures: outside Verus) -- so that mutual recursion is seen too
        helpers = []
        for header, o, c in rsx.impl_blocks(src, it.name):
            for fname in rsx.fns_in(src, o, c):
                if fname in ("boxed", "next"):
                    continue
                f = rsx.cut_fn(src[o:c + 1], fname)
                f = r2_debug_assert(r5_array_patterns(r0_types(f, info), info), info)
                f, _ = rsx.replace_code(f, r"Option<Self::Item>", "Option<%s>" % it.item_ty)
                helpers.append(rsx.add_dummy_loop_decreases(_pub(f)))
        parts.append("impl<%s> %s<%s>\n%s{\n%s\n%s\n}\n" % (it.generics_iter[0], it.name, it.generics_iter[1], _where(bounds), _pub(nxt), "\n".join(helpers)))
    else:
        parts.append(it.free_fns() + it.spec_impl(_where(bounds)) + _pub(nxt) + "\n}\n")
    return parts


def build_graph(repo):
    src = open(os.path.join(repo, GITER)).read()
    info = {"cuts": {}, "rewrites": {}, "assumptions": []}
    parts = _termdata(src, info)
    parts += _iterator(SPO, src, info, ["TI: TermIndex + 'a", "SM: TermMatcher", "PM: TermMatcher", "OM: TermMatcher"])
    parts += _iterator(BC, src, info, ["TI: TermIndex + 'a", "BM: TermMatcher", "CM: TermMatcher"])
    spec = open(os.path.join(HERE, "..", "contracts", "iter", "spec.rs")).read()
    info["text"] = ("use vstd::prelude::*;\nuse vstd::std_specs::cmp::PartialEqSpec;\nverus! {\n" + spec + PRELUDE_EXTRA
                    + "\n".join(parts) + "\n} // verus!\nfn main() {}\n")
    info["expect_functions"] = ["TermData::new", "TermData::uninit", "TermData::update",
                                "SpoMatchingIterator::next", "BcMatchingIterator::next", "lemma_first_match"]
    return info


def build_dataset(repo):
    src = open(os.path.join(repo, DITER)).read()
    gsrc = open(os.path.join(repo, GITER)).read()
    isrc = open(os.path.join(repo, INDEX)).read()
    info = {"cuts": {}, "rewrites": {}, "assumptions": []}
    ggn = rsx.cut_fn(isrc, "get_graph_name", within=r"pub trait GraphNameIndex: TermIndex")
    info["cuts"][INDEX + "::GraphNameIndex::get_graph_name"] = rsx.sha(ggn)
    ggn = rsx.add_spec(r0_types(ggn, info), GET_GRAPH_NAME_SPEC, ret="g")
    parts = [GNI_TRAIT.replace("@GET_GRAPH_NAME@", ggn)]
    parts += _termdata(gsrc, info)
    gst = rsx.cut_item(src, r"struct GraphNameData\b")
    info["cuts"][DITER + "::struct GraphNameData"] = rsx.sha(gst)
    parts.append(r0_types(gst, info))
    fns = []
    for name, spec in (("uninit", GND_UNINIT), ("new", GND_NEW), ("update", GND_UPDATE)):
        f = rsx.cut_fn(src, name, within=r"impl<'a, TI, M> GraphNameData<'a, TI, M>")
        info["cuts"][DITER + "::GraphNameData::" + name] = rsx.sha(f)
        f = rsx.add_spec(r0_types(f, info), spec, ret=None if name == "update" else "r")
        fns.append(f)
    parts.append(GND_SPECS + "\n".join(fns) + "\n}\n")
    parts += _iterator(GSPO, src, info, ["TI: GraphNameIndex + 'a", "GM: GraphNameMatcher", "SM: TermMatcher", "PM: TermMatcher", "OM: TermMatcher"])
    parts += _iterator(BCD, src, info, ["TI: GraphNameIndex + 'a", "BM: GraphNameMatcher", "CM: GraphNameMatcher", "DM: GraphNameMatcher"])
    parts += _iterator(CD, src, info, ["TI: GraphNameIndex + 'a", "CM: GraphNameMatcher", "DM: GraphNameMatcher"])
    spec = open(os.path.join(HERE, "..", "contracts", "iter", "spec.rs")).read()
    info["text"] = ("use vstd::prelude::*;\nuse vstd::std_specs::cmp::PartialEqSpec;\nverus! {\n" + spec + PRELUDE_EXTRA
                    + "\n".join(parts) + "\n} // verus!\nfn main() {}\n")
    info["expect_functions"] = ["GraphNameData::new", "GraphNameData::uninit", "GraphNameData::update", "GraphNameIndex::get_graph_name",
                                "GspoMatchingIterator::next", "BcdMatchingIterator::next", "CdMatchingIterator::next"]
    return info


ITERS = {"SpoMatchingIterator": SPO, "BcMatchingIterator": BC, "GspoMatchingIterator": GSPO, "BcdMatchingIterator": BCD, "CdMatchingIterator": CD}
BOUNDS = {
    "SpoMatchingIterator": ["TI: TermIndex + 'a", "SM: TermMatcher", "PM: TermMatcher", "OM: TermMatcher"],
    "BcMatchingIterator": ["TI: TermIndex + 'a", "BM: TermMatcher", "CM: TermMatcher"],
    "GspoMatchingIterator": ["TI: GraphNameIndex + 'a", "GM: GraphNameMatcher", "SM: TermMatcher", "PM: TermMatcher", "OM: TermMatcher"],
    "BcdMatchingIterator": ["TI: GraphNameIndex + 'a", "BM: GraphNameMatcher", "CM: GraphNameMatcher", "DM: GraphNameMatcher"],
    "CdMatchingIterator": ["TI: GraphNameIndex + 'a", "CM: GraphNameMatcher", "DM: GraphNameMatcher"],
}


def build_bare(repo, name):
    """Only the struct + `next` of one iterator, R0/R2/R5 applied, no contract spliced: used by C16 to let
    Verus' termination rule decide whether `next` is self-recursive even when the proof splice has lost its anchors."""
    it = ITERS[name]
    src = open(os.path.join(repo, it.file)).read()
    gsrc = open(os.path.join(repo, GITER)).read()
    info = {"cuts": {}, "rewrites": {}, "assumptions": []}
    parts = []
    if it.gni:
        isrc = open(os.path.join(repo, INDEX)).read()
        ggn = rsx.add_spec(r0_types(rsx.cut_fn(isrc, "get_graph_name", within=r"pub trait GraphNameIndex: TermIndex"), info), GET_GRAPH_NAME_SPEC, ret="g")
        parts.append(GNI_TRAIT.replace("@GET_GRAPH_NAME@", ggn))
    parts += _termdata(gsrc, info)
    if it.gni:
        parts.append(r0_types(rsx.cut_item(src, r"struct GraphNameData\b"), info))
        fns = []
        for nm, spec in (("uninit", GND_UNINIT), ("new", GND_NEW), ("update", GND_UPDATE)):
            f = rsx.cut_fn(src, nm, within=r"impl<'a, TI, M> GraphNameData<'a, TI, M>")
            fns.append(rsx.add_spec(r0_types(f, info), spec, ret=None if nm == "update" else "r"))
        parts.append(GND_SPECS + "\n".join(fns) + "\n}\n")
    parts.append("pub type Gspo<T> = (GraphName<T>, [T; 3]);")
    parts += _aliases(src, info)
    parts += _iterator(it, src, info, BOUNDS[name], bare=True)
    spec = open(os.path.join(HERE, "..", "contracts", "iter", "spec.rs")).read()
    info["text"] = ("use vstd::prelude::*;\nuse vstd::std_specs::cmp::PartialEqSpec;\nverus! {\n" + spec + PRELUDE_EXTRA
                    + "\n".join(parts) + "\n} // verus!\nfn main() {}\n")
    return info
