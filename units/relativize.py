"""U-REL: the guard in Relativizer::relativize (iri/src/relativize.rs), extracted for Verus."""
import os
import re
from engine import rsx

SRC = "iri/src/relativize.rs"
HERE = os.path.dirname(os.path.abspath(__file__))

SPEC = """
        ensures
            // whenever a reference is returned it is a valid IRI reference and resolving it against the base
            // gives back exactly the original IRI
            r is Some ==> valid_iri_ref(r->Some_0.view()) && resolves_to(self.base.view(), r->Some_0.view(), iri.s@),
"""

CANDIDATE_STANDIN = """
    // the prefix-based heuristic: NOTHING is assumed about its result
    #[verifier::external_body]
    fn candidate<'a>(&self, iri: &'a str) -> (r: Option<CowStr<'a>>)
    { unimplemented!() }
"""


def build(repo, canary=None):
    src = open(os.path.join(repo, SRC)).read()
    fn = rsx.cut_fn(src, "relativize", within=r"impl<T: Deref<Target = str>> Relativizer<T>")
    info = {"cuts": {SRC + "::Relativizer::relativize": rsx.sha(fn)}, "rewrites": {}, "assumptions": []}
    # R0: types replaced by their stand-ins
    fn, n = rsx.replace_code(fn, r"pub fn relativize<'a>\(&self, iri: Iri<&'a str>\) -> Option<IriRef<Cow<'a, str>>>",
                             "pub fn relativize<'a>(&self, iri: Iri<'a>) -> Option<IriRef<'a>>", expect=1)
    info["rewrites"]["R0 signature types -> stand-ins (Iri<&str>, IriRef<Cow<str>>)"] = n
    fn, n = rsx.replace_code(fn, r"(\w+)\.as_str\(\) == (\w+)", r"str_eq(\1.as_str(), \2)")
    info["rewrites"]["R0 `a == b` on &str -> str_eq(a, b)"] = n
    if n < 1:
        raise rsx.LostAnchor("no string comparison guard found in relativize")
    if canary == "no_guard":
        # vacuity canary: without the comparison the postcondition must NOT be provable
        fn = re.sub(r"Ok\(abs\) if str_eq\(abs\.as_str\(\), iri\)", "Ok(abs)", fn)
    fn = rsx.add_spec(fn, SPEC)
    fn = rsx.insert_before_line(fn, re.compile(r"^\s*match self\.base\.resolve\("), "        broadcast use axiom_resolution_is_functional;", expect_count=1)
    spec = open(os.path.join(HERE, "..", "contracts", "relativize", "spec.rs")).read()
    info["text"] = ("use vstd::prelude::*;\nverus! {\n" + spec + "\nimpl Relativizer {\n" + CANDIDATE_STANDIN + "\n" + fn + "\n}\n} // verus!\nfn main() {}\n")
    info["expect_functions"] = ["Relativizer::relativize"]
    info["assumptions"] = [
        "BaseIri::resolve (oxiri) implements RFC 3986 5.2: its Ok results are related to (base, reference) by the uninterpreted, functional relation resolves_to",
        "IriRef::new accepts exactly the valid IRI references (regex validator, C09 not claimed)",
        "Cow<'a, str> / Iri / IriRef reduced to their string views (stand-ins)",
    ]
    return info
