"""U-REL: the guard in Relativizer::relativize (iri/src/relativize.rs), extracted for Verus."""
import os
import re
from engine import rsx

SRC = "iri/src/relativize.rs"
HERE = os.path.dirname(os.path.abspath(__file__))

SPEC = """
        ensures
            // whenever a reference is returned it is a valid IRI reference and resolving it against the base
            // gives back exactly the original IRI
            r is Some ==> valid_iri_ref(r->Some_0.view()) && resolves_to(self.base.view(), r->Some_0.view(), iri.s@),
"""

CANDIDATE_STANDIN = """
    // the prefix-based heuristic: NOTHING is assumed about its result
    #[verifier::external_body]
    fn candidate<'a>(&self, iri: &'a str) -> (r: Option<CowStr<'a>>)
    { unimplemented!() }
"""


CHECKED_SPEC = """
        ensures
            r is Some ==> valid_iri_ref(r->Some_0.view()) && resolves_to(self.base.view(), r->Some_0.view(), iri@),
"""

PROTECT_STANDIN = """
    // the "./" protection of a first segment containing ':': NOTHING is assumed about its result
    #[verifier::external_body]
    fn protect<'a>(candidate: &CowStr<'_>) -> (r: Option<CowStr<'a>>)
    { unimplemented!() }
"""


def _guard(fn, canary, what):
    fn, n = rsx.replace_code(fn, r"(\w+)\.as_str\(\) == (\w+)", r"str_eq(\1.as_str(), \2)")
    if n < 1:
        raise rsx.LostAnchor("no string comparison guard found in " + what)
    if canary == "no_guard":
        # vacuity canary: without the comparison the postcondition must NOT be provable
        fn, k = re.subn(r"Ok\((\w+)\) if str_eq\(\1\.as_str\(\), \w+\)", r"Ok(\1)", fn)
        if k != 1:
            raise rsx.LostAnchor("canary: guard pattern not found in " + what)
    fn = rsx.insert_before_line(fn, re.compile(r"^\s*match self\.base\.resolve\("), "        broadcast use axiom_resolution_is_functional;", expect_count=1)
    return fn, n


def build(repo, canary=None):
    src = open(os.path.join(repo, SRC)).read()
    within = r"impl<T: Deref<Target = str>> Relativizer<T>"
    fn = rsx.cut_fn(src, "relativize", within=within)
    info = {"cuts": {SRC + "::Relativizer::relativize": rsx.sha(fn)}, "rewrites": {}, "assumptions": []}
    # R0: types replaced by their stand-ins
    fn, n = rsx.replace_code(fn, r"pub fn relativize<'a>\(&self, iri: Iri<&'a str>\) -> Option<IriRef<Cow<'a, str>>>",
                             "pub fn relativize<'a>(&self, iri: Iri<'a>) -> Option<IriRef<'a>>", expect=1)
    info["rewrites"]["R0 signature types -> stand-ins (Iri<&str>, IriRef<Cow<str>>)"] = n
    extra, expect = "", ["Relativizer::relativize"]
    if re.search(r"self\.checked\(", fn):
        # the guard lives in a helper `checked(candidate, iri)`: it carries the contract, relativize is verified
        # against it (modularly), and `protect` is an arbitrary heuristic like `candidate`
        chk = rsx.cut_fn(src, "checked", within=within)
        info["cuts"][SRC + "::Relativizer::checked"] = rsx.sha(chk)
        chk, n = rsx.replace_code(chk, r"fn checked<'a>\(&self, candidate: Cow<'a, str>, iri: &str\) -> Option<IriRef<Cow<'a, str>>>",
                                  "fn checked<'a>(&self, candidate: CowStr<'a>, iri: &str) -> Option<IriRef<'a>>", expect=1)
        info["rewrites"]["R0 signature types of checked -> stand-ins"] = n
        chk, n = _guard(chk, canary, "checked")
        info["rewrites"]["R0 `a == b` on &str -> str_eq(a, b)"] = n
        chk = rsx.add_spec(chk, CHECKED_SPEC)
        fn = rsx.add_spec(fn, SPEC)
        extra = PROTECT_STANDIN + "\n" + chk + "\n"
        expect.append("Relativizer::checked")
        if not re.search(r"\bSelf::protect\(&candidate\)", fn) and re.search(r"\bprotect\b", fn):
            raise rsx.LostAnchor("relativize: unexpected use of protect")
    else:
        fn, n = _guard(fn, canary, "relativize")
        info["rewrites"]["R0 `a == b` on &str -> str_eq(a, b)"] = n
        fn = rsx.add_spec(fn, SPEC)
    spec = open(os.path.join(HERE, "..", "contracts", "relativize", "spec.rs")).read()
    info["text"] = ("use vstd::prelude::*;\nverus! {\n" + spec + "\nimpl Relativizer {\n" + CANDIDATE_STANDIN + "\n" + extra + fn + "\n}\n} // verus!\nfn main() {}\n")
    info["expect_functions"] = expect
    info["assumptions"] = [
        "BaseIri::resolve (oxiri) implements RFC 3986 5.2: its Ok results are related to (base, reference) by the uninterpreted, functional relation resolves_to",
        "IriRef::new accepts exactly the valid IRI references (regex validator, C09 not claimed)",
        "Cow<'a, str> / Iri / IriRef reduced to their string views (stand-ins)",
    ]
    return info
