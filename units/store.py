"""U-STORE: insert/remove of the in-memory graphs (inmem/src/graph.rs) and datasets (inmem/src/dataset.rs)."""
import os
import re
from engine import rsx

RET = re.compile(r"^\s*return\b")
LASTFALSE = re.compile(r"^\s*Ok\((false|true)\)\s*$")
HERE = os.path.dirname(os.path.abspath(__file__))
GRAPH = "inmem/src/graph.rs"
DATASET = "inmem/src/dataset.rs"

# ---------------------------------------------------------------------------------------------------
GRAPH_VIEWS = """
pub open spec fn tkey3<TI: TermIndex>(m: Map<int, TI::Index>, k: (int, int, int)) -> [TI::Index; 3] {
    [m[k.0], m[k.1], m[k.2]]
}

// the mathematical set of triples (of term identities) a graph holds, given its primary index set
pub open spec fn tset3<TI: TermIndex>(m: Map<int, TI::Index>, spo: Set<[TI::Index; 3]>) -> ISet<(int, int, int)> {
    ISet::new(|k: (int, int, int)| m.contains_key(k.0) && m.contains_key(k.1) && m.contains_key(k.2)
        && spo.contains(tkey3::<TI>(m, k)))
}

// every stored index denotes a term
pub open spec fn closed3<TI: TermIndex>(m: Map<int, TI::Index>, spo: Set<[TI::Index; 3]>) -> bool {
    forall|t: [TI::Index; 3]| #![trigger spo.contains(t)] spo.contains(t) ==>
        in_range(m, t[0]) && in_range(m, t[1]) && in_range(m, t[2])
}

pub proof fn lemma_tset3_insert<TI: TermIndex>(m0: Map<int, TI::Index>, m3: Map<int, TI::Index>,
        spo: Set<[TI::Index; 3]>, k: (int, int, int))
    requires
        closed3::<TI>(m0, spo),
        sub_map(m0, m3),
        inj_map(m3),
        m3.contains_key(k.0), m3.contains_key(k.1), m3.contains_key(k.2),
    ensures
        tset3::<TI>(m3, spo.insert(tkey3::<TI>(m3, k))) =~= tset3::<TI>(m0, spo).insert(k),
        tset3::<TI>(m0, spo).contains(k) <==> spo.contains(tkey3::<TI>(m3, k)),
        closed3::<TI>(m3, spo.insert(tkey3::<TI>(m3, k))),
{
    let t = tkey3::<TI>(m3, k);
    let old = tset3::<TI>(m0, spo);
    let new = tset3::<TI>(m3, spo.insert(t));
    assert(t[0] == m3[k.0] && t[1] == m3[k.1] && t[2] == m3[k.2]);
    // helper: any stored tuple equal to tkey3(m3, j) forces j's components into dom(m0)
    assert forall|j: (int, int, int)| m3.contains_key(j.0) && m3.contains_key(j.1) && m3.contains_key(j.2)
        && spo.contains(tkey3::<TI>(m3, j)) implies old.contains(j) by {
        let u = tkey3::<TI>(m3, j);
        assert(u[0] == m3[j.0] && u[1] == m3[j.1] && u[2] == m3[j.2]);
        assert(in_range(m0, u[0]) && in_range(m0, u[1]) && in_range(m0, u[2]));
        let a0 = choose|x: int| m0.contains_key(x) && m0[x] == u[0];
        let a1 = choose|x: int| m0.contains_key(x) && m0[x] == u[1];
        let a2 = choose|x: int| m0.contains_key(x) && m0[x] == u[2];
        assert(m3[a0] == m3[j.0] && m3[a1] == m3[j.1] && m3[a2] == m3[j.2]);
        assert(a0 == j.0 && a1 == j.1 && a2 == j.2);
        assert(tkey3::<TI>(m0, j)@ =~= u@);
    }
    assert forall|j: (int, int, int)| new.contains(j) <==> old.insert(k).contains(j) by {
        if new.contains(j) {
            if tkey3::<TI>(m3, j) == t {
                let u = tkey3::<TI>(m3, j);
                assert(u[0] == m3[j.0] && u[1] == m3[j.1] && u[2] == m3[j.2]);
                assert(j.0 == k.0 && j.1 == k.1 && j.2 == k.2);
            } else {
                assert(spo.contains(tkey3::<TI>(m3, j)));
            }
        }
        if old.insert(k).contains(j) {
            if j == k {
                assert(spo.insert(t).contains(t));
            } else {
                assert(old.contains(j));
                assert(tkey3::<TI>(m3, j)@ =~= tkey3::<TI>(m0, j)@);
                assert(spo.insert(t).contains(tkey3::<TI>(m3, j)));
            }
        }
    }
    if old.contains(k) {
        assert(tkey3::<TI>(m3, k)@ =~= tkey3::<TI>(m0, k)@);
    }
    assert forall|u: [TI::Index; 3]| #![trigger spo.insert(t).contains(u)] spo.insert(t).contains(u) implies
        in_range(m3, u[0]) && in_range(m3, u[1]) && in_range(m3, u[2]) by {
        if u == t {
            assert(m3.contains_key(k.0) && m3[k.0] == u[0]);
            assert(m3.contains_key(k.1) && m3[k.1] == u[1]);
            assert(m3.contains_key(k.2) && m3[k.2] == u[2]);
        } else {
            assert(spo.contains(u));
            let a0 = choose|x: int| m0.contains_key(x) && m0[x] == u[0];
            let a1 = choose|x: int| m0.contains_key(x) && m0[x] == u[1];
            let a2 = choose|x: int| m0.contains_key(x) && m0[x] == u[2];
            assert(m3.contains_key(a0) && m3[a0] == u[0]);
            assert(m3.contains_key(a1) && m3[a1] == u[1]);
            assert(m3.contains_key(a2) && m3[a2] == u[2]);
        }
    }
}

// growing the term map never changes which triples are held
pub proof fn lemma_tset3_grow<TI: TermIndex>(m0: Map<int, TI::Index>, m1: Map<int, TI::Index>, spo: Set<[TI::Index; 3]>)
    requires closed3::<TI>(m0, spo), sub_map(m0, m1), inj_map(m1),
    ensures tset3::<TI>(m1, spo) =~= tset3::<TI>(m0, spo), closed3::<TI>(m1, spo),
{
    assert forall|j: (int, int, int)| tset3::<TI>(m1, spo).contains(j) <==> tset3::<TI>(m0, spo).contains(j) by {
        if tset3::<TI>(m1, spo).contains(j) {
            let u = tkey3::<TI>(m1, j);
            assert(u[0] == m1[j.0] && u[1] == m1[j.1] && u[2] == m1[j.2]);
            assert(in_range(m0, u[0]) && in_range(m0, u[1]) && in_range(m0, u[2]));
            let a0 = choose|x: int| m0.contains_key(x) && m0[x] == u[0];
            let a1 = choose|x: int| m0.contains_key(x) && m0[x] == u[1];
            let a2 = choose|x: int| m0.contains_key(x) && m0[x] == u[2];
            assert(m1[a0] == m1[j.0] && m1[a1] == m1[j.1] && m1[a2] == m1[j.2]);
            assert(a0 == j.0 && a1 == j.1 && a2 == j.2);
            assert(tkey3::<TI>(m0, j)@ =~= u@);
        }
        if tset3::<TI>(m0, spo).contains(j) {
            assert(tkey3::<TI>(m1, j)@ =~= tkey3::<TI>(m0, j)@);
        }
    }
    assert forall|u: [TI::Index; 3]| #![trigger spo.contains(u)] spo.contains(u) implies
        in_range(m1, u[0]) && in_range(m1, u[1]) && in_range(m1, u[2]) by {
        let a0 = choose|x: int| m0.contains_key(x) && m0[x] == u[0];
        let a1 = choose|x: int| m0.contains_key(x) && m0[x] == u[1];
        let a2 = choose|x: int| m0.contains_key(x) && m0[x] == u[2];
        assert(m1.contains_key(a0) && m1[a0] == u[0]);
        assert(m1.contains_key(a1) && m1[a1] == u[1]);
        assert(m1.contains_key(a2) && m1[a2] == u[2]);
    }
}

pub proof fn lemma_tset3_remove<TI: TermIndex>(m: Map<int, TI::Index>, spo: Set<[TI::Index; 3]>, k: (int, int, int))
    requires
        inj_map(m),
        m.contains_key(k.0), m.contains_key(k.1), m.contains_key(k.2),
        closed3::<TI>(m, spo),
    ensures
        tset3::<TI>(m, spo.remove(tkey3::<TI>(m, k))) =~= tset3::<TI>(m, spo).remove(k),
        tset3::<TI>(m, spo).contains(k) <==> spo.contains(tkey3::<TI>(m, k)),
        closed3::<TI>(m, spo.remove(tkey3::<TI>(m, k))),
{
    let t = tkey3::<TI>(m, k);
    assert(t[0] == m[k.0] && t[1] == m[k.1] && t[2] == m[k.2]);
    assert forall|j: (int, int, int)| tset3::<TI>(m, spo.remove(t)).contains(j) <==> tset3::<TI>(m, spo).remove(k).contains(j) by {
        let u = tkey3::<TI>(m, j);
        assert(u[0] == m[j.0] && u[1] == m[j.1] && u[2] == m[j.2]);
        if tset3::<TI>(m, spo).remove(k).contains(j) {
            if u == t { assert(j.0 == k.0 && j.1 == k.1 && j.2 == k.2); }
        }
    }
    assert forall|u: [TI::Index; 3]| #![trigger spo.remove(t).contains(u)] spo.remove(t).contains(u) implies
        in_range(m, u[0]) && in_range(m, u[1]) && in_range(m, u[2]) by { assert(spo.contains(u)); }
}

// an unknown term cannot be part of any stored triple
pub proof fn lemma_tset3_unknown<TI: TermIndex>(m: Map<int, TI::Index>, spo: Set<[TI::Index; 3]>, k: (int, int, int))
    requires !(m.contains_key(k.0) && m.contains_key(k.1) && m.contains_key(k.2)),
    ensures !tset3::<TI>(m, spo).contains(k),
{
}
"""

FAST_GRAPH_SPECS = """
impl<TI: TermIndex> GenericFastGraph<TI> {
    pub closed spec fn tmap(&self) -> Map<int, TI::Index> { self.terms.t2i() }
    pub closed spec fn inv(&self) -> bool {
        &&& ti_wf(&self.terms)
        &&& self.pos@ == self.spo@.map(rot1_fn::<TI::Index>())
        &&& self.osp@ == self.spo@.map(rot2_fn::<TI::Index>())
        &&& closed3::<TI>(self.terms.t2i(), self.spo@)
    }
    pub closed spec fn view(&self) -> ISet<(int, int, int)> { tset3::<TI>(self.terms.t2i(), self.spo@) }
"""

LIGHT_GRAPH_SPECS = """
impl<TI: TermIndex> GenericLightGraph<TI> {
    pub closed spec fn tmap(&self) -> Map<int, TI::Index> { self.terms.t2i() }
    pub closed spec fn inv(&self) -> bool {
        &&& ti_wf(&self.terms)
        &&& closed3::<TI>(self.terms.t2i(), self.triples@)
    }
    pub closed spec fn view(&self) -> ISet<(int, int, int)> { tset3::<TI>(self.terms.t2i(), self.triples@) }
"""

G_INSERT_SPEC = """
    requires old(self).inv(), key_obeys_cmp_spec::<[TI::Index; 3]>(),
    ensures
        final(self).inv(),
        r is Err ==> final(self).view() == old(self).view(),
        r is Ok ==> final(self).view() == old(self).view().insert((s.key(), p.key(), o.key())),
        r is Ok ==> r->Ok_0 == !old(self).view().contains((s.key(), p.key(), o.key())),
"""
G_REMOVE_SPEC = """
    requires old(self).inv(), key_obeys_cmp_spec::<[TI::Index; 3]>(),
    ensures
        final(self).inv(),
        r is Ok,
        final(self).tmap() == old(self).tmap(),
        final(self).view() == old(self).view().remove((s.key(), p.key(), o.key())),
        r->Ok_0 == old(self).view().contains((s.key(), p.key(), o.key())),
"""



def _locals(fn, ds=False):
    """names of the locals holding the indices of s, p, o (and g): the ghost blocks are written with is/ip/io/ig and
    renamed to whatever the code calls them, so that renaming a local is not a lost anchor"""
    names = {}
    for param, default in (("s", "is"), ("p", "ip"), ("o", "io")):
        m = re.search(r"let (?:Some\()?(\w+)\)? = self\.terms\.(?:ensure_index|get_index)\(%s\)" % param, fn)
        if not m:
            raise rsx.LostAnchor("index local for parameter %s not found" % param)
        names[default] = m.group(1)
    if ds:
        m = re.search(r"let (?:Some\()?(\w+)\)? = (?:match g|self\.terms\.get_graph_name_index\(g\))", fn)
        if not m:
            raise rsx.LostAnchor("index local for the graph name not found")
        names["ig"] = m.group(1)
    return names


_G = {}


def _ins(fn, needle, ghost, **kw):
    return rsx.insert_before_line(fn, needle, _ren(ghost, _G), **kw)


def _use(fn, ds=False):
    _G.clear()
    _G.update(_locals(fn, ds))


def _ren(text, names):
    for old, new in names.items():
        if old != new:
            text = re.sub(r"(?<![\w.])%s(?![\w(])" % old, new, text)
    return text


def _sig_rewrites(fn, info, ds=False):
    """R0: crate type aliases expanded, trait-impl method moved into an inherent impl (`pub` added by the assembler)."""
    if ds:
        fn, n = rsx.replace_code(fn, r"sophia_api::dataset::MdResult<Self, bool>", "Result<bool, TI::Error>", expect=1)
    else:
        fn, n = rsx.replace_code(fn, r"sophia_api::graph::MgResult<Self, bool>", "Result<bool, TI::Error>", expect=1)
    info["rewrites"]["R0 result alias expanded"] = info["rewrites"].get("R0 result alias expanded", 0) + n
    fn, n = rsx.replace_code(fn, r"debug_assert!\(i\);", "assert(i);")
    info["rewrites"]["R2 debug_assert!(i) -> assert(i)"] = info["rewrites"].get("R2 debug_assert!(i) -> assert(i)", 0) + n
    # R2 is only sound for a side-effect-free argument (a plain local): anything else is evaluated in debug builds and
    # NOT in release builds, and Verus would verify the debug-build behaviour only
    code = "".join(ch for ch, m in zip(fn, rsx.code_mask(fn)) if m)
    if re.search(r"\bdebug_assert(_eq|_ne)?!\s*\(", code):
        raise rsx.RewriteRefused("a debug_assert! with an argument other than a plain local remains: its evaluation differs between debug and release builds")
    return fn


def build_graph(repo, which="all"):
    src = open(os.path.join(repo, GRAPH)).read()
    info = {"cuts": {}, "rewrites": {}, "assumptions": []}
    out = []
    # struct definitions verbatim (attributes dropped)
    for st in ("GenericLightGraph", "GenericFastGraph"):
        t = rsx.cut_item(src, r"pub struct " + st + r"\b")
        info["cuts"][GRAPH + "::struct " + st] = rsx.sha(t)
        out.append(t)
    # ---- fast graph
    fi = rsx.cut_fn(src, "insert", within=r"impl<TI: TermIndex> MutableGraph for GenericFastGraph<TI>")
    fr = rsx.cut_fn(src, "remove", within=r"impl<TI: TermIndex> MutableGraph for GenericFastGraph<TI>")
    info["cuts"][GRAPH + "::GenericFastGraph::insert"] = rsx.sha(fi)
    info["cuts"][GRAPH + "::GenericFastGraph::remove"] = rsx.sha(fr)
    fi = _sig_rewrites(fi, info)
    fr = _sig_rewrites(fr, info)
    fi = rsx.add_spec(fi, G_INSERT_SPEC)
    _use(fi)
    fi = _ensure_steps(fi, "spo")
    fi = _ins(fi, "self.spo.insert(", """
        proof {
            let m0 = old(self).terms.t2i();
            let m3 = self.terms.t2i();
            let k = (s.key(), p.key(), o.key());
            let t = [is, ip, io];
            lemma_sub_insert(m2, o.key(), io);
            lemma_sub_trans(m0, m2, m3);
            assert(m3[k.0] == is && m3[k.1] == ip && m3[k.2] == io);
            assert(tkey3::<TI>(m3, k)@ =~= t@);
            lemma_tset3_insert::<TI>(m0, m3, self.spo@, k);
            lemma_rot_fns_injective::<TI::Index>();
            lemma_map_insert(self.spo@, rot1_fn::<TI::Index>(), t);
            lemma_map_insert(self.spo@, rot2_fn::<TI::Index>(), t);
            lemma_map_contains(self.spo@, rot1_fn::<TI::Index>(), t);
            lemma_map_contains(self.spo@, rot2_fn::<TI::Index>(), t);
            assert(rot1(t) == [ip, io, is]) by { assert(rot1(t)@ =~= [ip, io, is]@); }
            assert(rot2(t) == [io, is, ip]) by { assert(rot2(t)@ =~= [io, is, ip]@); }
        }""", expect_count=1)
    fi = _ins(fi, LASTFALSE, """
            proof { assert(self.spo@ =~= old(self).spo@); }""", occurrence=1, expect_count=2)
    fr = rsx.add_spec(fr, G_REMOVE_SPEC)
    _use(fr)
    fr = _ins(fr, "self.spo.remove(", """
        proof {
            let m = self.terms.t2i();
            let k = (s.key(), p.key(), o.key());
            let t = [is, ip, io];
            assert(tkey3::<TI>(m, k)@ =~= t@);
            lemma_tset3_remove::<TI>(m, self.spo@, k);
            lemma_rot_fns_injective::<TI::Index>();
            lemma_map_remove(self.spo@, rot1_fn::<TI::Index>(), t);
            lemma_map_remove(self.spo@, rot2_fn::<TI::Index>(), t);
            lemma_map_contains(self.spo@, rot1_fn::<TI::Index>(), t);
            lemma_map_contains(self.spo@, rot2_fn::<TI::Index>(), t);
            assert(rot1(t) == [ip, io, is]) by { assert(rot1(t)@ =~= [ip, io, is]@); }
            assert(rot2(t) == [io, is, ip]) by { assert(rot2(t)@ =~= [io, is, ip]@); }
        }""", expect_count=1)
    fr = _ins(fr, LASTFALSE, """
            proof { assert(self.spo@ =~= old(self).spo@); assert(self.view() =~= old(self).view().remove((s.key(), p.key(), o.key()))); }""", occurrence=1, expect_count=2)
    for occ in (0, 1, 2):
        fr = _ins(fr, RET, """
            proof {
                lemma_tset3_unknown::<TI>(self.terms.t2i(), self.spo@, (s.key(), p.key(), o.key()));
                assert(self.view() =~= old(self).view().remove((s.key(), p.key(), o.key())));
            }""", occurrence=occ)
    out.append(FAST_GRAPH_SPECS + _indent_pub(fi) + "\n" + _indent_pub(fr) + "\n}\n")
    # ---- light graph
    li = rsx.cut_fn(src, "insert", within=r"impl<TI: TermIndex> MutableGraph for GenericLightGraph<TI>")
    lr = rsx.cut_fn(src, "remove", within=r"impl<TI: TermIndex> MutableGraph for GenericLightGraph<TI>")
    info["cuts"][GRAPH + "::GenericLightGraph::insert"] = rsx.sha(li)
    info["cuts"][GRAPH + "::GenericLightGraph::remove"] = rsx.sha(lr)
    li = _sig_rewrites(li, info)
    lr = _sig_rewrites(lr, info)
    li = rsx.add_spec(li, G_INSERT_SPEC)
    _use(li)
    li = _ensure_steps(li, "triples")
    li = _ins(li, "self.triples.insert(", """
        proof {
            let m0 = old(self).terms.t2i();
            let m3 = self.terms.t2i();
            let k = (s.key(), p.key(), o.key());
            let t = [is, ip, io];
            lemma_sub_insert(m2, o.key(), io);
            lemma_sub_trans(m0, m2, m3);
            assert(m3[k.0] == is && m3[k.1] == ip && m3[k.2] == io);
            assert(tkey3::<TI>(m3, k)@ =~= t@);
            lemma_tset3_insert::<TI>(m0, m3, self.triples@, k);
        }""", expect_count=1)
    lr = rsx.add_spec(lr, G_REMOVE_SPEC)
    _use(lr)
    lr = _ins(lr, "self.triples.remove(", """
        proof {
            let m = self.terms.t2i();
            let k = (s.key(), p.key(), o.key());
            let t = [is, ip, io];
            assert(tkey3::<TI>(m, k)@ =~= t@);
            lemma_tset3_remove::<TI>(m, self.triples@, k);
        }""", expect_count=1)
    for occ in (0, 1, 2):
        lr = _ins(lr, RET, """
            proof {
                lemma_tset3_unknown::<TI>(self.terms.t2i(), self.triples@, (s.key(), p.key(), o.key()));
                assert(self.view() =~= old(self).view().remove((s.key(), p.key(), o.key())));
            }""", occurrence=occ)
    out.append(LIGHT_GRAPH_SPECS + _indent_pub(li) + "\n" + _indent_pub(lr) + "\n}\n")
    spec = open(os.path.join(HERE, "..", "contracts", "store", "spec.rs")).read()
    text = ("use vstd::prelude::*;\nuse vstd::std_specs::btree::*;\nuse std::collections::BTreeSet;\nverus! {\n"
            + spec + GRAPH_VIEWS + "\n".join(out) + "\n} // verus!\nfn main() {}\n")
    info["text"] = text
    info["expect_functions"] = ["GenericFastGraph::insert", "GenericFastGraph::remove", "GenericLightGraph::insert",
                                "GenericLightGraph::remove", "lemma_tset3_insert", "lemma_tset3_remove", "lemma_map_insert",
                                "lemma_map_remove", "lemma_map_contains", "lemma_rot_fns_injective"]
    return info



def _ensure_steps(fn, setname):
    fn = _ins(fn, re.compile(r"let \w+ = self\.terms\.ensure_index\(p\)\?;"), """
        proof {
            lemma_sub_insert(old(self).terms.t2i(), s.key(), is);
            lemma_tset3_grow::<TI>(old(self).terms.t2i(), self.terms.t2i(), self.%s@);
        }
        let ghost m1 = self.terms.t2i();""" % setname, expect_count=1)
    fn = _ins(fn, re.compile(r"let \w+ = self\.terms\.ensure_index\(o\)\?;"), """
        proof {
            lemma_sub_insert(m1, p.key(), ip);
            lemma_sub_trans(old(self).terms.t2i(), m1, self.terms.t2i());
            lemma_tset3_grow::<TI>(old(self).terms.t2i(), self.terms.t2i(), self.%s@);
        }
        let ghost m2 = self.terms.t2i();""" % setname, expect_count=1)
    return fn

def _nth_after(text, needle, occ):
    """occurrence index that skips the ghost lines inserted before earlier hits (ghost text never contains needle)."""
    return occ


def _indent_pub(fn):
    """trait-impl methods have no visibility; in the inherent impl they become `pub fn` (R0)."""
    return re.sub(r"^(\s*)fn ", r"\1pub fn ", fn, count=1, flags=re.M)


# =====================================================================================================
#  datasets
# =====================================================================================================
DATASET_VIEWS = """
pub open spec fn gname_key<TG: Term>(g: Option<TG>) -> Option<int> {
    match g { None => None, Some(t) => Some(t.key()) }
}

pub open spec fn gidx<TI: TermIndex>(m: Map<int, TI::Index>, res: TI::Index, g: Option<int>) -> TI::Index {
    match g { None => res, Some(k) => m[k] }
}

pub open spec fn gknown<TI: TermIndex>(m: Map<int, TI::Index>, g: Option<int>) -> bool {
    match g { None => true, Some(k) => m.contains_key(k) }
}

pub open spec fn tkey4<TI: TermIndex>(m: Map<int, TI::Index>, res: TI::Index, k: (Option<int>, int, int, int)) -> [TI::Index; 4] {
    [gidx::<TI>(m, res, k.0), m[k.1], m[k.2], m[k.3]]
}

// the mathematical set of quads (graph name identity or None for the default graph, then s, p, o)
pub open spec fn tset4<TI: TermIndex>(m: Map<int, TI::Index>, res: TI::Index, q: Set<[TI::Index; 4]>) -> ISet<(Option<int>, int, int, int)> {
    ISet::new(|k: (Option<int>, int, int, int)| gknown::<TI>(m, k.0) && m.contains_key(k.1) && m.contains_key(k.2) && m.contains_key(k.3)
        && q.contains(tkey4::<TI>(m, res, k)))
}

pub open spec fn closed4<TI: TermIndex>(m: Map<int, TI::Index>, res: TI::Index, q: Set<[TI::Index; 4]>) -> bool {
    forall|t: [TI::Index; 4]| #![trigger q.contains(t)] q.contains(t) ==>
        (t[0] == res || in_range(m, t[0])) && in_range(m, t[1]) && in_range(m, t[2]) && in_range(m, t[3])
}

// a stored tuple that is the image of j under a larger injective map m1 is already the image of j under m0
pub proof fn lemma_pull_back4<TI: TermIndex>(m0: Map<int, TI::Index>, m1: Map<int, TI::Index>, res: TI::Index,
        q: Set<[TI::Index; 4]>, j: (Option<int>, int, int, int))
    requires closed4::<TI>(m0, res, q), sub_map(m0, m1), inj_map(m1), avoids(m1, res),
        gknown::<TI>(m1, j.0), m1.contains_key(j.1), m1.contains_key(j.2), m1.contains_key(j.3),
        q.contains(tkey4::<TI>(m1, res, j)),
    ensures gknown::<TI>(m0, j.0), m0.contains_key(j.1), m0.contains_key(j.2), m0.contains_key(j.3),
        tkey4::<TI>(m0, res, j) == tkey4::<TI>(m1, res, j),
{
    let u = tkey4::<TI>(m1, res, j);
    assert(u[0] == gidx::<TI>(m1, res, j.0) && u[1] == m1[j.1] && u[2] == m1[j.2] && u[3] == m1[j.3]);
    let a1 = choose|x: int| m0.contains_key(x) && m0[x] == u[1];
    let a2 = choose|x: int| m0.contains_key(x) && m0[x] == u[2];
    let a3 = choose|x: int| m0.contains_key(x) && m0[x] == u[3];
    assert(m1[a1] == m1[j.1] && m1[a2] == m1[j.2] && m1[a3] == m1[j.3]);
    assert(a1 == j.1 && a2 == j.2 && a3 == j.3);
    match j.0 {
        None => {}
        Some(kg) => {
            assert(u[0] == m1[kg]);
            assert(u[0] != res);
            let a0 = choose|x: int| m0.contains_key(x) && m0[x] == u[0];
            assert(m1[a0] == m1[kg]);
            assert(a0 == kg);
        }
    }
    assert(tkey4::<TI>(m0, res, j)@ =~= u@);
}

pub proof fn lemma_tkey4_inj<TI: TermIndex>(m: Map<int, TI::Index>, res: TI::Index, j: (Option<int>, int, int, int), k: (Option<int>, int, int, int))
    requires inj_map(m), avoids(m, res),
        gknown::<TI>(m, j.0), m.contains_key(j.1), m.contains_key(j.2), m.contains_key(j.3),
        gknown::<TI>(m, k.0), m.contains_key(k.1), m.contains_key(k.2), m.contains_key(k.3),
        tkey4::<TI>(m, res, j) == tkey4::<TI>(m, res, k),
    ensures j == k,
{
    let u = tkey4::<TI>(m, res, j);
    let v = tkey4::<TI>(m, res, k);
    assert(u[0] == gidx::<TI>(m, res, j.0) && u[1] == m[j.1] && u[2] == m[j.2] && u[3] == m[j.3]);
    assert(v[0] == gidx::<TI>(m, res, k.0) && v[1] == m[k.1] && v[2] == m[k.2] && v[3] == m[k.3]);
    assert(j.1 == k.1 && j.2 == k.2 && j.3 == k.3);
    match (j.0, k.0) {
        (None, None) => {}
        (Some(a), Some(b)) => { assert(m[a] == m[b]); assert(a == b); }
        (None, Some(b)) => { assert(m[b] == res); }
        (Some(a), None) => { assert(m[a] == res); }
    }
}

pub proof fn lemma_tset4_grow<TI: TermIndex>(m0: Map<int, TI::Index>, m1: Map<int, TI::Index>, res: TI::Index, q: Set<[TI::Index; 4]>)
    requires closed4::<TI>(m0, res, q), sub_map(m0, m1), inj_map(m1), avoids(m1, res),
    ensures tset4::<TI>(m1, res, q) =~= tset4::<TI>(m0, res, q), closed4::<TI>(m1, res, q),
{
    assert forall|j: (Option<int>, int, int, int)| tset4::<TI>(m1, res, q).contains(j) <==> tset4::<TI>(m0, res, q).contains(j) by {
        if tset4::<TI>(m1, res, q).contains(j) {
            lemma_pull_back4::<TI>(m0, m1, res, q, j);
        }
        if tset4::<TI>(m0, res, q).contains(j) {
            assert(tkey4::<TI>(m1, res, j)@ =~= tkey4::<TI>(m0, res, j)@);
        }
    }
    assert forall|u: [TI::Index; 4]| #![trigger q.contains(u)] q.contains(u) implies
        (u[0] == res || in_range(m1, u[0])) && in_range(m1, u[1]) && in_range(m1, u[2]) && in_range(m1, u[3]) by {
        let a1 = choose|x: int| m0.contains_key(x) && m0[x] == u[1];
        let a2 = choose|x: int| m0.contains_key(x) && m0[x] == u[2];
        let a3 = choose|x: int| m0.contains_key(x) && m0[x] == u[3];
        assert(m1.contains_key(a1) && m1[a1] == u[1]);
        assert(m1.contains_key(a2) && m1[a2] == u[2]);
        assert(m1.contains_key(a3) && m1[a3] == u[3]);
        if u[0] != res {
            let a0 = choose|x: int| m0.contains_key(x) && m0[x] == u[0];
            assert(m1.contains_key(a0) && m1[a0] == u[0]);
        }
    }
}

pub proof fn lemma_tset4_insert<TI: TermIndex>(m0: Map<int, TI::Index>, m4: Map<int, TI::Index>, res: TI::Index,
        q: Set<[TI::Index; 4]>, k: (Option<int>, int, int, int))
    requires closed4::<TI>(m0, res, q), sub_map(m0, m4), inj_map(m4), avoids(m4, res),
        gknown::<TI>(m4, k.0), m4.contains_key(k.1), m4.contains_key(k.2), m4.contains_key(k.3),
    ensures
        tset4::<TI>(m4, res, q.insert(tkey4::<TI>(m4, res, k))) =~= tset4::<TI>(m0, res, q).insert(k),
        tset4::<TI>(m0, res, q).contains(k) <==> q.contains(tkey4::<TI>(m4, res, k)),
        closed4::<TI>(m4, res, q.insert(tkey4::<TI>(m4, res, k))),
{
    let t = tkey4::<TI>(m4, res, k);
    let old = tset4::<TI>(m0, res, q);
    let new = tset4::<TI>(m4, res, q.insert(t));
    lemma_tset4_grow::<TI>(m0, m4, res, q);
    assert(t[0] == gidx::<TI>(m4, res, k.0) && t[1] == m4[k.1] && t[2] == m4[k.2] && t[3] == m4[k.3]);
    assert forall|j: (Option<int>, int, int, int)| new.contains(j) <==> old.insert(k).contains(j) by {
        if new.contains(j) {
            if tkey4::<TI>(m4, res, j) == t {
                lemma_tkey4_inj::<TI>(m4, res, j, k);
            } else {
                assert(q.contains(tkey4::<TI>(m4, res, j)));
                assert(tset4::<TI>(m4, res, q).contains(j));
            }
        }
        if old.insert(k).contains(j) {
            if j == k {
                assert(q.insert(t).contains(t));
            } else {
                assert(tset4::<TI>(m4, res, q).contains(j));
                assert(q.insert(t).contains(tkey4::<TI>(m4, res, j)));
            }
        }
    }
    if old.contains(k) { assert(tset4::<TI>(m4, res, q).contains(k)); }
    if q.contains(t) { assert(tset4::<TI>(m4, res, q).contains(k)); }
    assert forall|u: [TI::Index; 4]| #![trigger q.insert(t).contains(u)] q.insert(t).contains(u) implies
        (u[0] == res || in_range(m4, u[0])) && in_range(m4, u[1]) && in_range(m4, u[2]) && in_range(m4, u[3]) by {
        if u == t {
            assert(m4.contains_key(k.1) && m4[k.1] == u[1]);
            assert(m4.contains_key(k.2) && m4[k.2] == u[2]);
            assert(m4.contains_key(k.3) && m4[k.3] == u[3]);
            match k.0 { None => {} Some(kg) => { assert(m4.contains_key(kg) && m4[kg] == u[0]); } }
        } else {
            assert(q.contains(u));
        }
    }
}

pub proof fn lemma_tset4_remove<TI: TermIndex>(m: Map<int, TI::Index>, res: TI::Index, q: Set<[TI::Index; 4]>, k: (Option<int>, int, int, int))
    requires inj_map(m), avoids(m, res), closed4::<TI>(m, res, q),
        gknown::<TI>(m, k.0), m.contains_key(k.1), m.contains_key(k.2), m.contains_key(k.3),
    ensures
        tset4::<TI>(m, res, q.remove(tkey4::<TI>(m, res, k))) =~= tset4::<TI>(m, res, q).remove(k),
        tset4::<TI>(m, res, q).contains(k) <==> q.contains(tkey4::<TI>(m, res, k)),
        closed4::<TI>(m, res, q.remove(tkey4::<TI>(m, res, k))),
{
    let t = tkey4::<TI>(m, res, k);
    assert forall|j: (Option<int>, int, int, int)| tset4::<TI>(m, res, q.remove(t)).contains(j) <==> tset4::<TI>(m, res, q).remove(k).contains(j) by {
        if tset4::<TI>(m, res, q).remove(k).contains(j) {
            if tkey4::<TI>(m, res, j) == t { lemma_tkey4_inj::<TI>(m, res, j, k); }
        }
    }
    assert forall|u: [TI::Index; 4]| #![trigger q.remove(t).contains(u)] q.remove(t).contains(u) implies
        (u[0] == res || in_range(m, u[0])) && in_range(m, u[1]) && in_range(m, u[2]) && in_range(m, u[3]) by { assert(q.contains(u)); }
}

// ---- the five secondary orders as functions of the primary tuple [g, s, p, o] ----
pub open spec fn p_gpos<I>(t: [I; 4]) -> [I; 4] { [t[0], t[2], t[3], t[1]] }
pub open spec fn p_gosp<I>(t: [I; 4]) -> [I; 4] { [t[0], t[3], t[1], t[2]] }
pub open spec fn p_spog<I>(t: [I; 4]) -> [I; 4] { [t[1], t[2], t[3], t[0]] }
pub open spec fn p_posg<I>(t: [I; 4]) -> [I; 4] { [t[2], t[3], t[1], t[0]] }
pub open spec fn p_ospg<I>(t: [I; 4]) -> [I; 4] { [t[3], t[1], t[2], t[0]] }
pub open spec fn f_gpos<I>() -> spec_fn([I; 4]) -> [I; 4] { |t: [I; 4]| p_gpos(t) }
pub open spec fn f_gosp<I>() -> spec_fn([I; 4]) -> [I; 4] { |t: [I; 4]| p_gosp(t) }
pub open spec fn f_spog<I>() -> spec_fn([I; 4]) -> [I; 4] { |t: [I; 4]| p_spog(t) }
pub open spec fn f_posg<I>() -> spec_fn([I; 4]) -> [I; 4] { |t: [I; 4]| p_posg(t) }
pub open spec fn f_ospg<I>() -> spec_fn([I; 4]) -> [I; 4] { |t: [I; 4]| p_ospg(t) }

pub proof fn lemma_perm4_injective<I>()
    ensures injective(f_gpos::<I>()), injective(f_gosp::<I>()), injective(f_spog::<I>()), injective(f_posg::<I>()), injective(f_ospg::<I>()),
{
    assert forall|x: [I; 4], y: [I; 4]| #![trigger f_gpos::<I>()(x), f_gpos::<I>()(y)] f_gpos::<I>()(x) == f_gpos::<I>()(y) implies x == y by {
        let a = p_gpos(x); let b = p_gpos(y);
        assert(a[0] == x[0] && a[1] == x[2] && a[2] == x[3] && a[3] == x[1]);
        assert(b[0] == y[0] && b[1] == y[2] && b[2] == y[3] && b[3] == y[1]);
        assert(x@ =~= y@);
    }
    assert forall|x: [I; 4], y: [I; 4]| #![trigger f_gosp::<I>()(x), f_gosp::<I>()(y)] f_gosp::<I>()(x) == f_gosp::<I>()(y) implies x == y by {
        let a = p_gosp(x); let b = p_gosp(y);
        assert(a[0] == x[0] && a[1] == x[3] && a[2] == x[1] && a[3] == x[2]);
        assert(b[0] == y[0] && b[1] == y[3] && b[2] == y[1] && b[3] == y[2]);
        assert(x@ =~= y@);
    }
    assert forall|x: [I; 4], y: [I; 4]| #![trigger f_spog::<I>()(x), f_spog::<I>()(y)] f_spog::<I>()(x) == f_spog::<I>()(y) implies x == y by {
        let a = p_spog(x); let b = p_spog(y);
        assert(a[0] == x[1] && a[1] == x[2] && a[2] == x[3] && a[3] == x[0]);
        assert(b[0] == y[1] && b[1] == y[2] && b[2] == y[3] && b[3] == y[0]);
        assert(x@ =~= y@);
    }
    assert forall|x: [I; 4], y: [I; 4]| #![trigger f_posg::<I>()(x), f_posg::<I>()(y)] f_posg::<I>()(x) == f_posg::<I>()(y) implies x == y by {
        let a = p_posg(x); let b = p_posg(y);
        assert(a[0] == x[2] && a[1] == x[3] && a[2] == x[1] && a[3] == x[0]);
        assert(b[0] == y[2] && b[1] == y[3] && b[2] == y[1] && b[3] == y[0]);
        assert(x@ =~= y@);
    }
    assert forall|x: [I; 4], y: [I; 4]| #![trigger f_ospg::<I>()(x), f_ospg::<I>()(y)] f_ospg::<I>()(x) == f_ospg::<I>()(y) implies x == y by {
        let a = p_ospg(x); let b = p_ospg(y);
        assert(a[0] == x[3] && a[1] == x[1] && a[2] == x[2] && a[3] == x[0]);
        assert(b[0] == y[3] && b[1] == y[1] && b[2] == y[2] && b[3] == y[0]);
        assert(x@ =~= y@);
    }
}
"""

GNI_DEFAULTS_SPEC = """
        requires inj_map(self.t2i()), avoids(self.t2i(), self.reserved()),
        ensures
            gknown::<Self>(self.t2i(), gname_key(g)) ==> r == Some(gidx::<Self>(self.t2i(), self.reserved(), gname_key(g))),
            !gknown::<Self>(self.t2i(), gname_key(g)) ==> r is None,
"""

LIGHT_DS_SPECS = """
impl<TI: GraphNameIndex> GenericLightDataset<TI> {
    pub closed spec fn tmap(&self) -> Map<int, TI::Index> { self.terms.t2i() }
    pub closed spec fn inv(&self) -> bool {
        &&& ti_wf(&self.terms)
        &&& closed4::<TI>(self.terms.t2i(), self.terms.reserved(), self.quads@)
    }
    pub closed spec fn view(&self) -> ISet<(Option<int>, int, int, int)> { tset4::<TI>(self.terms.t2i(), self.terms.reserved(), self.quads@) }
"""

FAST_DS_SPECS = """
impl<TI: GraphNameIndex> GenericFastDataset<TI> {
    pub closed spec fn tmap(&self) -> Map<int, TI::Index> { self.terms.t2i() }
    pub closed spec fn inv(&self) -> bool {
        &&& ti_wf(&self.terms)
        &&& closed4::<TI>(self.terms.t2i(), self.terms.reserved(), self.gspo@)
        &&& self.gpos@ == self.gspo@.map(f_gpos::<TI::Index>())
        &&& self.gosp@ == self.gspo@.map(f_gosp::<TI::Index>())
        &&& self.spog@ == self.gspo@.map(f_spog::<TI::Index>())
        &&& self.posg@ == self.gspo@.map(f_posg::<TI::Index>())
        &&& self.ospg@ == self.gspo@.map(f_ospg::<TI::Index>())
    }
    pub closed spec fn view(&self) -> ISet<(Option<int>, int, int, int)> { tset4::<TI>(self.terms.t2i(), self.terms.reserved(), self.gspo@) }
"""

D_INSERT_SPEC = """
    requires old(self).inv(), key_obeys_cmp_spec::<[TI::Index; 4]>(),
    ensures
        final(self).inv(),
        r is Err ==> final(self).view() == old(self).view(),
        r is Ok ==> final(self).view() == old(self).view().insert((gname_key(g), s.key(), p.key(), o.key())),
        r is Ok ==> r->Ok_0 == !old(self).view().contains((gname_key(g), s.key(), p.key(), o.key())),
"""
D_REMOVE_SPEC = """
    requires old(self).inv(), key_obeys_cmp_spec::<[TI::Index; 4]>(),
    ensures
        final(self).inv(),
        r is Ok,
        final(self).tmap() == old(self).tmap(),
        final(self).view() == old(self).view().remove((gname_key(g), s.key(), p.key(), o.key())),
        r->Ok_0 == old(self).view().contains((gname_key(g), s.key(), p.key(), o.key())),
"""


def _ds_ensure_steps(fn, setname):
    res = "self.terms.reserved()"
    fn = _ins(fn, re.compile(r"let \w+ = self\.terms\.ensure_index\(p\)\?;"), """
        proof {
            lemma_sub_insert(old(self).terms.t2i(), s.key(), is);
            lemma_tset4_grow::<TI>(old(self).terms.t2i(), self.terms.t2i(), %s, self.%s@);
        }
        let ghost m1 = self.terms.t2i();""" % (res, setname), expect_count=1)
    fn = _ins(fn, re.compile(r"let \w+ = self\.terms\.ensure_index\(o\)\?;"), """
        proof {
            lemma_sub_insert(m1, p.key(), ip);
            lemma_sub_trans(old(self).terms.t2i(), m1, self.terms.t2i());
            lemma_tset4_grow::<TI>(old(self).terms.t2i(), self.terms.t2i(), %s, self.%s@);
        }
        let ghost m2 = self.terms.t2i();""" % (res, setname), expect_count=1)
    fn = _ins(fn, re.compile(r"let \w+ = match g \{"), """
        proof {
            lemma_sub_insert(m2, o.key(), io);
            lemma_sub_trans(old(self).terms.t2i(), m2, self.terms.t2i());
            lemma_tset4_grow::<TI>(old(self).terms.t2i(), self.terms.t2i(), %s, self.%s@);
        }
        let ghost m3 = self.terms.t2i();
        let ghost gk = gname_key(g);""" % (res, setname), expect_count=1)
    return fn


def _ds_insert_main_proof(setname, fast):
    extra = ""
    if fast:
        extra = """
            lemma_perm4_injective::<TI::Index>();
            lemma_map_insert(self.gspo@, f_gpos::<TI::Index>(), t);
            lemma_map_insert(self.gspo@, f_gosp::<TI::Index>(), t);
            lemma_map_insert(self.gspo@, f_spog::<TI::Index>(), t);
            lemma_map_insert(self.gspo@, f_posg::<TI::Index>(), t);
            lemma_map_insert(self.gspo@, f_ospg::<TI::Index>(), t);
            lemma_map_contains(self.gspo@, f_gpos::<TI::Index>(), t);
            lemma_map_contains(self.gspo@, f_gosp::<TI::Index>(), t);
            lemma_map_contains(self.gspo@, f_spog::<TI::Index>(), t);
            lemma_map_contains(self.gspo@, f_posg::<TI::Index>(), t);
            lemma_map_contains(self.gspo@, f_ospg::<TI::Index>(), t);
            assert(p_gpos(t) == [ig, ip, io, is]) by { assert(p_gpos(t)@ =~= [ig, ip, io, is]@); }
            assert(p_gosp(t) == [ig, io, is, ip]) by { assert(p_gosp(t)@ =~= [ig, io, is, ip]@); }
            assert(p_spog(t) == [is, ip, io, ig]) by { assert(p_spog(t)@ =~= [is, ip, io, ig]@); }
            assert(p_posg(t) == [ip, io, is, ig]) by { assert(p_posg(t)@ =~= [ip, io, is, ig]@); }
            assert(p_ospg(t) == [io, is, ip, ig]) by { assert(p_ospg(t)@ =~= [io, is, ip, ig]@); }"""
    return """
        proof {
            let m0 = old(self).terms.t2i();
            let m4 = self.terms.t2i();
            let res = self.terms.reserved();
            let k = (gk, s.key(), p.key(), o.key());
            let t = [ig, is, ip, io];
            match gk {
                None => { assert(m4 == m3); }
                Some(kg) => { lemma_sub_insert(m3, kg, ig); }
            }
            lemma_sub_trans(m0, m3, m4);
            assert(m4[k.1] == is && m4[k.2] == ip && m4[k.3] == io);
            assert(gidx::<TI>(m4, res, k.0) == ig);
            assert(tkey4::<TI>(m4, res, k)@ =~= t@);
            lemma_tset4_insert::<TI>(m0, m4, res, self.%s@, k);%s
        }""" % (setname, extra)


def _ds_remove_main_proof(setname, fast):
    extra = ""
    if fast:
        extra = """
            lemma_perm4_injective::<TI::Index>();
            lemma_map_remove(self.gspo@, f_gpos::<TI::Index>(), t);
            lemma_map_remove(self.gspo@, f_gosp::<TI::Index>(), t);
            lemma_map_remove(self.gspo@, f_spog::<TI::Index>(), t);
            lemma_map_remove(self.gspo@, f_posg::<TI::Index>(), t);
            lemma_map_remove(self.gspo@, f_ospg::<TI::Index>(), t);
            lemma_map_contains(self.gspo@, f_gpos::<TI::Index>(), t);
            lemma_map_contains(self.gspo@, f_gosp::<TI::Index>(), t);
            lemma_map_contains(self.gspo@, f_spog::<TI::Index>(), t);
            lemma_map_contains(self.gspo@, f_posg::<TI::Index>(), t);
            lemma_map_contains(self.gspo@, f_ospg::<TI::Index>(), t);
            assert(p_gpos(t) == [ig, ip, io, is]) by { assert(p_gpos(t)@ =~= [ig, ip, io, is]@); }
            assert(p_gosp(t) == [ig, io, is, ip]) by { assert(p_gosp(t)@ =~= [ig, io, is, ip]@); }
            assert(p_spog(t) == [is, ip, io, ig]) by { assert(p_spog(t)@ =~= [is, ip, io, ig]@); }
            assert(p_posg(t) == [ip, io, is, ig]) by { assert(p_posg(t)@ =~= [ip, io, is, ig]@); }
            assert(p_ospg(t) == [io, is, ip, ig]) by { assert(p_ospg(t)@ =~= [io, is, ip, ig]@); }"""
    return """
        proof {
            let m = self.terms.t2i();
            let res = self.terms.reserved();
            let k = (gk, s.key(), p.key(), o.key());
            let t = [ig, is, ip, io];
            assert(tkey4::<TI>(m, res, k)@ =~= t@);
            lemma_tset4_remove::<TI>(m, res, self.%s@, k);%s
        }""" % (setname, extra)


UNKNOWN4 = """
            proof { assert(self.view() =~= old(self).view().remove((gk, s.key(), p.key(), o.key()))); }"""


def build_dataset(repo):
    src = open(os.path.join(repo, DATASET)).read()
    isrc = open(os.path.join(repo, "inmem/src/index.rs")).read()
    info = {"cuts": {}, "rewrites": {}, "assumptions": []}
    out = []
    # default method of GraphNameIndex, verified against its contract inside the stand-in trait
    gni = rsx.cut_fn(isrc, "get_graph_name_index", within=r"pub trait GraphNameIndex: TermIndex")
    info["cuts"]["inmem/src/index.rs::GraphNameIndex::get_graph_name_index"] = rsx.sha(gni)
    gni = rsx.add_spec(gni, GNI_DEFAULTS_SPEC)
    for st in ("GenericLightDataset", "GenericFastDataset"):
        t = rsx.cut_item(src, r"pub struct " + st + r"\b")
        info["cuts"][DATASET + "::struct " + st] = rsx.sha(t)
        # R0: GenericLightDataset is declared over TermIndex but only ever used with GraphNameIndex
        out.append(t)
    for st, setname, fast, specs in (("GenericLightDataset", "quads", False, LIGHT_DS_SPECS), ("GenericFastDataset", "gspo", True, FAST_DS_SPECS)):
        within = r"impl<TI: GraphNameIndex> MutableDataset for " + st + r"<TI>"
        fi = rsx.cut_fn(src, "insert", within=within)
        fr = rsx.cut_fn(src, "remove", within=within)
        info["cuts"][DATASET + "::" + st + "::insert"] = rsx.sha(fi)
        info["cuts"][DATASET + "::" + st + "::remove"] = rsx.sha(fr)
        fi = _sig_rewrites(fi, info, ds=True)
        fr = _sig_rewrites(fr, info, ds=True)
        fi = rsx.add_spec(fi, D_INSERT_SPEC)
        _use(fi, ds=True)
        fi = _ds_ensure_steps(fi, setname)
        if fast:
            fi = _ins(fi, "self.gspo.insert(", _ds_insert_main_proof(setname, True), expect_count=1)
            fi = _ins(fi, LASTFALSE, "\n            proof { assert(self.gspo@ =~= old(self).gspo@); }", occurrence=1, expect_count=2)
        else:
            fi = _ins(fi, "self.quads.insert(", _ds_insert_main_proof(setname, False), expect_count=1)
        fr = rsx.add_spec(fr, D_REMOVE_SPEC)
        _use(fr, ds=True)
        fr = _ins(fr, re.compile(r"let Some\(\w+\) = self\.terms\.get_index\(s\) else \{"), "        let ghost gk = gname_key(g);", expect_count=1)
        if fast:
            fr = _ins(fr, "self.gspo.remove(", _ds_remove_main_proof(setname, True), expect_count=1)
            fr = _ins(fr, LASTFALSE, "\n            proof { assert(self.gspo@ =~= old(self).gspo@); }" + UNKNOWN4, occurrence=1, expect_count=2)
        else:
            fr = _ins(fr, "self.quads.remove(", _ds_remove_main_proof(setname, False), expect_count=1)
        for occ in (0, 1, 2, 3):
            fr = _ins(fr, RET, UNKNOWN4, occurrence=occ)
        out.append(specs + _indent_pub(fi) + "\n" + _indent_pub(fr) + "\n}\n")
    spec = open(os.path.join(HERE, "..", "contracts", "store", "spec.rs")).read()
    spec = spec.replace("        ensures r == self.reserved();", "        ensures r == self.reserved();\n\n" + gni)
    text = ("use vstd::prelude::*;\nuse vstd::std_specs::btree::*;\nuse std::collections::BTreeSet;\nverus! {\n"
            + spec.split("pub trait GraphNameIndex")[0] + DATASET_VIEWS.split("// a stored tuple that")[0] * 0
            + "\n} // verus!\nfn main() {}\n")
    # assemble: spec (with trait default body) + dataset views + impls
    text = ("use vstd::prelude::*;\nuse vstd::std_specs::btree::*;\nuse std::collections::BTreeSet;\nverus! {\n"
            + _hoist_views(spec) + "\n".join(out) + "\n} // verus!\nfn main() {}\n")
    info["text"] = text
    info["expect_functions"] = ["GenericFastDataset::insert", "GenericFastDataset::remove", "GenericLightDataset::insert",
                                "GenericLightDataset::remove", "GraphNameIndex::get_graph_name_index", "lemma_tset4_insert",
                                "lemma_tset4_remove", "lemma_tset4_grow", "lemma_perm4_injective", "lemma_tkey4_inj", "lemma_pull_back4"]
    return info


def _hoist_views(spec):
    """gname_key/gidx/gknown are used by the trait default method's contract, so the dataset view
    definitions that do not mention the trait-bound lemmas go first; order is irrelevant to Verus."""
    return spec + DATASET_VIEWS
