"""U-PERM: c14n/src/_permutations.rs, extracted verbatim for Verus."""
import os
from engine import rsx

SRC = "c14n/src/_permutations.rs"
HERE = os.path.dirname(os.path.abspath(__file__))

# The callback's precondition is only known for permutations of the input (for every state of the FnMut):
# Verus must therefore prove that every slice handed to `f` is a permutation of the input.
ACCEPTS = "forall|g: F, s: &[T]| s@.to_multiset() == old(values)@.to_multiset() ==> #[trigger] g.requires((s,))"

TOP_SPEC = """
    requires %s,
    ensures final(values)@.to_multiset() == old(values)@.to_multiset(),
        final(values)@.len() == old(values)@.len(),
""" % ACCEPTS

REC_SPEC = """
    requires 1 <= size <= old(values)@.len(),
        %s,
    ensures final(values)@.to_multiset() == old(values)@.to_multiset(),
        final(values)@.len() == old(values)@.len(),
    decreases size,
""" % ACCEPTS

LOOP_INV = """
            invariant
                2 <= size <= values@.len(),
                values@.len() == old(values)@.len(),
                values@.to_multiset() == old(values)@.to_multiset(),
                %s,
""" % ACCEPTS

GHOST = """
            proof {
                lemma_swap_multiset(values@, 0, size - 1);
                lemma_swap_multiset(values@, i as int, size - 1);
            }"""


def build(repo, canary=None):
    src = open(os.path.join(repo, SRC)).read()
    info = {"cuts": {}, "rewrites": {}, "assumptions": []}
    top = rsx.cut_fn(src, "for_each_permutation_of")
    rec = rsx.cut_fn(src, "permutations")
    info["cuts"][SRC + "::for_each_permutation_of"] = rsx.sha(top)
    info["cuts"][SRC + "::permutations"] = rsx.sha(rec)
    top = rsx.add_spec(top, TOP_SPEC)
    rec = rsx.add_spec(rec, REC_SPEC)
    rec = rsx.add_loop_spec(rec, 0, LOOP_INV, kind="for")
    rec = rsx.insert_after_line(rec, "permutations(values, f, size - 1)?;", GHOST, expect_count=1)
    spec = open(os.path.join(HERE, "..", "contracts", "perm", "spec.rs")).read()
    if canary == "swap_spec_wrong":
        # vacuity canary: a swap that overwrites instead of exchanging must make the proof FAIL
        spec = spec.replace(".update(b as int, old(s)@[a as int]);", ".update(b as int, old(s)@[b as int]);")
        spec = spec.replace("pub proof fn lemma_swap_multiset", "#[verifier::external_body]\npub proof fn lemma_swap_multiset")
    info["text"] = "use vstd::prelude::*;\nuse vstd::multiset::*;\nverus! {\n" + spec + "\n" + top + "\n\n" + rec + "\n} // verus!\nfn main() {}\n"
    info["expect_functions"] = ["for_each_permutation_of", "permutations", "lemma_swap_multiset"]
    info["assumptions"] = ["assume_specification <[T]>::swap: exchanges positions a and b, requires both in bounds"]
    return info
