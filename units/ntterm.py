"""U-NTTERM: write_term / write_triple (turtle/src/serializer/nt.rs) extracted for Verus, together with quoted_string
(U-ESC) so that the call is checked against the verified contract."""
import os
import re
from engine import rsx
from units import esc

SRC = "turtle/src/serializer/nt.rs"
HERE = os.path.dirname(os.path.abspath(__file__))

WT_SPEC = """
    requires
        // unwrap()s are justified by the accessor contracts; nesting is finite
        true,
    ensures
        r is Ok ==> (*final(w)).written() == (*old(w)).written() + fmt_term(t.tv()),
    decreases depth(t.tv()), 0nat,
"""
WTR_SPEC = """
    ensures
        r is Ok ==> (*final(w)).written() == (*old(w)).written() + fmt_triple(t.sv(), t.pv(), t.ov()),
    decreases depth(t.sv()) + depth(t.pv()) + depth(t.ov()), 1nat,
"""


NQ_SRC = "turtle/src/serializer/nq.rs"

STMT_NT_SPEC = """
    ensures
        r is Ok ==> (*final(w)).written() == (*old(w)).written() + fmt_triple(t[0].tv(), t[1].tv(), t[2].tv()) + seq![46u8, 10u8],
"""
STMT_NQ_SPEC = """
    ensures
        // one statement per line; the graph name is written only for named-graph quads
        r is Ok ==> (*final(w)).written() == (*old(w)).written() + fmt_triple(tr[0].tv(), tr[1].tv(), tr[2].tv())
            + (match gn { None => Seq::<u8>::empty(), Some(g) => seq![32u8] + fmt_term(g.tv()) }) + seq![46u8, 10u8],
"""


def _lines_between(src, start_re, end_re, what):
    lines = src.split("\n")
    st = [i for i, l in enumerate(lines) if re.search(start_re, l)]
    if len(st) != 1:
        raise rsx.LostAnchor("%s: start anchor %r: %d hits" % (what, start_re, len(st)))
    en = [i for i, l in enumerate(lines) if i > st[0] and re.search(end_re, l)]
    if not en:
        raise rsx.LostAnchor("%s: end anchor %r not found" % (what, end_re))
    return "\n".join(lines[st[0] + 1:en[0]])


def statement_fns(repo, info):
    """R7: the bodies of the per-statement closures of serialize_triples (nt.rs) and serialize_quads (nq.rs) -- the
    lines between `let w = &mut self.write;` / `let (tr, gn) = q.spog();` and the closing brace before `.map_err` --
    lifted verbatim into functions taking the closure's bindings as parameters."""
    nt = open(os.path.join(repo, SRC)).read()
    nq = open(os.path.join(repo, NQ_SRC)).read()
    body_nt = _lines_between(nt, r"let w = &mut self\.write;", r"^\s*\}\s*$", "serialize_triples closure")
    body_nq = _lines_between(nq, r"let \(tr, gn\) = q\.spog\(\);", r"^\s*\.map_err\(", "serialize_quads closure")
    # the nq block ends with the brace closing the inner block: drop it
    body_nq = body_nq.rstrip()
    if not body_nq.endswith("}"):
        raise rsx.LostAnchor("serialize_quads closure: unexpected block end")
    body_nq = body_nq[:-1].rstrip()
    info["cuts"][SRC + "::serialize_triples (statement closure body)"] = rsx.sha(body_nt)
    info["cuts"][NQ_SRC + "::serialize_quads (statement closure body)"] = rsx.sha(body_nq)
    info["rewrites"]["R7 closure body lifted to a function"] = 2
    ax = rsx.literal_axioms(body_nt + body_nq)
    info["assumptions"] += ["L1: " + a for a in ax if ("L1: " + a) not in info["assumptions"]]
    axs = "    proof { " + " ".join(ax) + " }\n"
    f_nt = ("pub fn nt_statement<W, T>(w: &mut W, t: [T; 3]) -> (r: io::Result<()>)\nwhere\n    W: io::Write,\n    T: Term,\n"
            + STMT_NT_SPEC + "{\n" + axs + "    let ghost w0 = (*w).written();\n" + body_nt + "\n}\n")
    f_nq = ("pub fn nq_statement<W, T>(w: &mut W, tr: [T; 3], gn: Option<T>) -> (r: io::Result<()>)\nwhere\n    W: io::Write,\n    T: Term,\n"
            + STMT_NQ_SPEC + "{\n" + axs + body_nq + "\n}\n")
    return f_nt + "\n" + f_nq


def build(repo, canary=None):
    e = esc.build(repo)
    src = open(os.path.join(repo, SRC)).read()
    info = {"cuts": dict(e["cuts"]), "rewrites": dict(e["rewrites"]), "assumptions": list(e["assumptions"])}
    wt = rsx.cut_fn(src, "write_term")
    wtr = rsx.cut_fn(src, "write_triple")
    info["cuts"][SRC + "::write_term"] = rsx.sha(wt)
    info["cuts"][SRC + "::write_triple"] = rsx.sha(wtr)
    # R0
    wt, n = rsx.replace_code(wt, r"\s*use TermKind::\{[^}]*\};", "")
    info["rewrites"]["R0 local `use TermKind::{..}` hoisted"] = n
    wt, n = rsx.replace_code(wt, r"xsd::string != (\w+)", r"ne_xsd_string(&\1)")
    info["rewrites"]["R0 `xsd::string != dt` -> ne_xsd_string(&dt)"] = n
    if n != 1:
        raise rsx.LostAnchor("datatype test `xsd::string != dt` not found in write_term")
    axioms = rsx.literal_axioms(wt + wtr)
    info["rewrites"]["L1 byte-literal axioms (write_term/write_triple)"] = len(axioms)
    info["assumptions"] += ["L1: " + a for a in axioms]
    wt = rsx.add_spec(wt, WT_SPEC)
    ax = "    proof { " + " ".join(axioms) + " }"
    wt = rsx.insert_before_line(wt, re.compile(r"^\s*match t\.kind\(\) \{"), ax + "\n    let ghost w0 = (*w).written();", expect_count=1)
    # R6: Verus cannot check termination of mutual recursion that changes generic instantiation
    # (write_term::<W,T> -> write_triple::<W,[T;3]> -> write_term::<W,T::BorrowTerm>): the recursive call goes to a
    # copy of write_triple's body specialised to T = [X; 3] (same text, same contract); the generic original is
    # verified too, outside the cycle.
    wtr_arr, n = rsx.replace_code(wtr, r"pub fn write_triple<W, T>\(w: &mut W, t: T\)", "pub fn write_triple_arr<W, T>(w: &mut W, t: [T; 3])", expect=1)
    wtr_arr, n2 = rsx.replace_code(wtr_arr, r"T: Triple,", "T: Term,", expect=1)
    info["rewrites"]["R6 specialised copy write_triple_arr for the recursive call"] = n
    wt, n = rsx.replace_code(wt, r"write_triple\(w, t\.to_triple\(\)\.unwrap\(\)\)", "write_triple_arr(w, t.to_triple().unwrap())", expect=1)
    wtr = rsx.add_spec(wtr, WTR_SPEC.replace("    decreases depth(t.sv()) + depth(t.pv()) + depth(t.ov()), 1nat,\n", ""))
    wtr_arr = rsx.add_spec(wtr_arr, WTR_SPEC)
    wtr = rsx.insert_before_line(wtr, re.compile(r"^\s*write_term\(w, t\.s\(\)\)\?;"), ax, expect_count=1)
    wtr_arr = rsx.insert_before_line(wtr_arr, re.compile(r"^\s*write_term\(w, t\.s\(\)\)\?;"), ax, expect_count=1)
    wtr = wtr + "\n\n" + wtr_arr
    # the recursive call on the quoted triple: measure decreases
    wt = rsx.insert_before_line(wt, re.compile(r"write_triple_arr\(w, t\.to_triple\(\)\.unwrap\(\)\)\?;"), """
            proof {
                let v = t.tv();
                assert(depth(v) == 1 + depth(*v->Triple_0) + depth(*v->Triple_1) + depth(*v->Triple_2));
            }""", expect_count=1)
    wt = rsx.insert_before_line(wt, re.compile(r"^\s*Ok\(\(\)\)\s*$"), "    assert((*w).written() =~= w0 + fmt_term(t.tv()));", expect_count=1)
    spec = open(os.path.join(HERE, "..", "contracts", "ntterm", "spec.rs")).read()
    if canary == "always_suffix":
        # vacuity canary: a grammar that always writes the datatype suffix must be refuted
        spec = spec.replace("if dt == xsd_string() { seq![34u8] + esc(lex) + seq![34u8] }", "if false { seq![34u8] + esc(lex) + seq![34u8] }")
    stm = ""
    try:
        stm = statement_fns(repo, info)
        info["statements"] = True
    except rsx.LostAnchor as ex:
        info["statements"] = False
        info["statements_lost"] = str(ex)
    text = e["text"].replace("\n} // verus!\nfn main() {}\n", "\nuse TermKind::*;\n" + spec + "\n" + wtr + "\n\n" + wt + "\n\n" + stm + "\n} // verus!\nfn main() {}\n")
    info["text"] = text
    info["l1_sources"] = list(e.get("l1_sources", [])) + [wt, wtr, stm]
    info["expect_functions"] = ["write_term", "write_triple", "write_triple_arr", "quoted_string"] + (["nt_statement", "nq_statement"] if stm else [])
    info["assumptions"] += [
        "R0 stand-in trait Term: each accessor used by write_term (kind, iri, bnode_id, variable, lexical_form, language_tag, datatype, to_triple) returns the corresponding component of the term's abstract value TermV",
        "R0 stand-in trait Triple for [T; 3] with borrowed components; ne_xsd_string decides equality with the xsd:string IRI",
    ]
    return info
