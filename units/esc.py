"""U-ESC: turtle/src/serializer/nt.rs::quoted_string, extracted for Verus."""
import os
from engine import rsx

NAME = "esc"
SRC = "turtle/src/serializer/nt.rs"

FN_SPEC = """
    requires txt_in@.len() < usize::MAX,
    ensures r is Ok ==> (*final(w)).written() == (*old(w)).written() + esc(txt_in@),
"""

OUTER_LOOP = """
        invariant
            txt@.len() < usize::MAX,
            (*w).written() + esc(txt@) == (*old(w)).written() + esc(txt_in@),
        decreases txt@.len(),
"""

SCAN_LOOP = """
            invariant_except_break
                cut == txt.len(),
            invariant
                pos <= txt.len(),
                forall|i: int| 0 <= i < pos ==> !special(txt@[i]),
            ensures
                cut <= txt.len(),
                forall|i: int| 0 <= i < cut ==> !special(txt@[i]),
                cut < txt.len() ==> (cutchar == txt@[cut as int] && special(cutchar)),
            decreases txt.len() - pos,
"""

GHOST_AFTER_SCAN = """
        proof { lemma_esc_plain_prefix(txt@, cut as int); }
        let ghost w0 = (*w).written();
"""
GHOST_AFTER_PREFIX_WRITE = """
        assert((*w).written() =~= w0 + txt@.subrange(0, cut as int));
        let ghost w1 = (*w).written();
"""
GHOST_BEFORE_EXIT_TEST = """
        assert(cut < txt.len() ==> (*w).written() =~= w1 + esc1(cutchar));
        proof {
            if cut < txt.len() {
                let rest = txt@.subrange(cut as int, txt@.len() as int);
                assert(rest.len() > 0);
                assert(rest[0] == cutchar);
                assert(rest.subrange(1, rest.len() as int) == txt@.subrange(cut as int + 1, txt@.len() as int));
                assert(esc(rest) == esc1(cutchar) + esc(txt@.subrange(cut as int + 1, txt@.len() as int)));
                if cut + 1 >= txt.len() {
                    assert(txt@.subrange(cut as int + 1, txt@.len() as int).len() == 0);
                    assert(esc(txt@.subrange(cut as int + 1, txt@.len() as int)) == Seq::<u8>::empty());
                    assert((*w).written() =~= w0 + esc(txt@));
                } else {
                    assert((*w).written() + esc(txt@.subrange(cut as int + 1, txt@.len() as int)) =~= w0 + esc(txt@));
                }
            } else {
                assert(txt@.subrange(cut as int, txt@.len() as int).len() == 0);
                assert(esc(txt@.subrange(cut as int, txt@.len() as int)) == Seq::<u8>::empty());
                assert((*w).written() =~= w0 + esc(txt@));
            }
        }
"""
GHOST_BEFORE_ADVANCE = """
        assert((*w).written() + esc(txt@.subrange(cut as int + 1, txt@.len() as int)) =~= (*old(w)).written() + esc(txt_in@));
"""

# corollaries (lemmas over the contract's spec function): what the property needs
COROLLARIES = """
// The N-Triples literal token written by write_term is '"' + esc(lexical form) + '"' ...;
// a W3C-grammar reader applies unesc to the body: the lexical form is recovered byte for byte.
pub proof fn corollary_roundtrip(s: Seq<u8>)
    ensures unesc(esc(s)) == s, wf_body(esc(s)),
        forall|i: int| 0 <= i < esc(s).len() ==> esc(s)[i] != 10u8 && esc(s)[i] != 13u8,
{
    lemma_unesc_esc(s);
    lemma_esc_wf(s);
}
"""


def build(repo, canary=None):
    src = open(os.path.join(repo, SRC)).read()
    cut = rsx.cut_fn(src, "quoted_string")
    info = {"cuts": {SRC + "::quoted_string": rsx.sha(cut)}, "rewrites": {}}
    fn, n = rsx.rewrite_enumerate(cut)
    info["rewrites"]["R1 enumerate desugaring"] = n
    fn, n = rsx.replace_code(fn, r"unreachable!\(\)", "{ assert(false); vstd::pervasive::unreached() }")
    info["rewrites"]["R3 unreachable!() -> assert(false)"] = n
    fn, n = rsx.replace_code(fn, r"\(w: &mut W, mut txt: &\[u8\]\) -> io::Result<\(\)> \{",
                             "(w: &mut W, txt_in: &[u8]) -> io::Result<()> {\n    let mut txt = txt_in;", expect=1)
    info["rewrites"]["R4 `mut txt` parameter -> parameter `txt_in` + `let mut txt = txt_in;`"] = n
    axioms = rsx.literal_axioms(fn)
    info["rewrites"]["L1 byte-literal axioms"] = len(axioms)
    info["assumptions"] = ["L1: " + a for a in axioms]
    fn = rsx.add_spec(fn, FN_SPEC)
    fn = rsx.add_loop_spec(fn, 0, OUTER_LOOP, kind="loop")
    fn = rsx.add_loop_spec(fn, 1, SCAN_LOOP, kind="while")
    # ghost code (erased by Verus)
    fn = rsx.insert_before_line(fn, "let mut cut = txt.len();", "        proof { " + " ".join(axioms) + " }", expect_count=1)
    fn = rsx.insert_before_line(fn, "w.write_all(&txt[..cut])?;", GHOST_AFTER_SCAN, expect_count=1)
    fn = rsx.insert_after_line(fn, "w.write_all(&txt[..cut])?;", GHOST_AFTER_PREFIX_WRITE, expect_count=1)
    fn = rsx.insert_before_line(fn, "if cut + 1 >= txt.len()", GHOST_BEFORE_EXIT_TEST, expect_count=1)
    fn = rsx.insert_before_line(fn, "txt = &txt[cut + 1..];", GHOST_BEFORE_ADVANCE, expect_count=1)
    spec = open(os.path.join(os.path.dirname(__file__), "..", "contracts", "esc", "spec.rs")).read()
    if canary == "spec_wrong_cr":
        # vacuity canary: an esc that forgets to escape CR must make the proof FAIL
        spec = spec.replace("else if c == 13u8 { seq![92u8, 114u8] }", "")
    text = ("use vstd::prelude::*;\nuse std::io;\nverus! {\n" + spec + "\n" + fn + "\n" + COROLLARIES + "\n} // verus!\nfn main() {}\n")
    info["text"] = text
    info["plain_fn"] = cut
    info["l1_sources"] = [cut]
    # obligations that must appear as verified functions
    info["expect_functions"] = ["quoted_string", "lemma_esc_plain_prefix", "lemma_unesc_esc", "lemma_esc_wf",
                                "lemma_esc_identity_on_plain", "lemma_esc1_ascii", "lemma_esc_concat", "corollary_roundtrip"]
    return info
