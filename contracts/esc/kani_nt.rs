#[cfg(kani)]
mod verif_c03 {
    //! C03 bounded stand-ins on the real serializer code (robust to refactoring: the functions are called by name).
    use super::*;
    use sophia_api::term::{BnodeId, IriRef, LanguageTag, Term, TermKind, VarName};
    use sophia_api::MownStr;

    /// fixed-size writer (no heap, no unwrap): records everything written
    pub struct Sink {
        pub buf: [u8; 64],
        pub n: usize,
    }
    impl std::io::Write for Sink {
        fn write(&mut self, b: &[u8]) -> std::io::Result<usize> {
            let mut i = 0;
            while i < b.len() {
                if self.n < 64 {
                    self.buf[self.n] = b[i];
                }
                self.n += 1;
                i += 1;
            }
            Ok(b.len())
        }
        fn flush(&mut self) -> std::io::Result<()> {
            Ok(())
        }
    }

    /// reference: esc() of contracts/esc/spec.rs, written into an array
    fn esc_ref(s: &[u8], out: &mut [u8; 48]) -> usize {
        let mut n = 0;
        let mut i = 0;
        while i < s.len() {
            let c = s[i];
            let e: Option<u8> = match c {
                b'\n' => Some(b'n'),
                b'\r' => Some(b'r'),
                b'"' => Some(b'"'),
                b'\\' => Some(b'\\'),
                _ => None,
            };
            match e {
                Some(x) => {
                    out[n] = b'\\';
                    out[n + 1] = x;
                    n += 2;
                }
                None => {
                    out[n] = c;
                    n += 1;
                }
            }
            i += 1;
        }
        n
    }

    #[kani::proof]
    #[kani::unwind(10)]
    fn c03_quoted_string_len4() {
        let bytes: [u8; 4] = kani::any();
        let len: usize = kani::any();
        kani::assume(len <= 4);
        let mut w = Sink { buf: [0; 64], n: 0 };
        let r = quoted_string(&mut w, &bytes[..len]);
        assert!(r.is_ok());
        let mut want = [0u8; 48];
        let wn = esc_ref(&bytes[..len], &mut want);
        assert!(w.n == wn);
        let mut i = 0;
        while i < 8 {
            if i < wn {
                assert!(w.buf[i] == want[i]);
            }
            i += 1;
        }
        kani::cover!(len == 4 && bytes[0] == b'\n' && bytes[1] == b'\n');
        kani::cover!(len == 3 && bytes[2] == b'\\');
    }

    #[kani::proof]
    #[kani::unwind(8)]
    fn c03_quoted_string_len3() {
        let bytes: [u8; 3] = kani::any();
        let len: usize = kani::any();
        kani::assume(len <= 3);
        let mut w = Sink { buf: [0; 64], n: 0 };
        let r = quoted_string(&mut w, &bytes[..len]);
        assert!(r.is_ok());
        let mut want = [0u8; 48];
        let wn = esc_ref(&bytes[..len], &mut want);
        assert!(w.n == wn);
        let mut i = 0;
        while i < 6 {
            if i < wn {
                assert!(w.buf[i] == want[i]);
            }
            i += 1;
        }
        kani::cover!(len == 3 && bytes[0] == b'\n' && bytes[1] == b'\n');
        kani::cover!(len == 3 && bytes[2] == b'\\');
    }

    // ---- write_term framing on a harness term with one-byte components ----
    #[derive(Clone, Copy, Debug)]
    pub enum K<'a> {
        Iri([u8; 1]),
        Blank([u8; 1]),
        Lit([u8; 1], Option<[u8; 2]>, bool), // lexical, language tag, datatype is xsd:string?
        LitDt([u8; 1], &'a str), // lexical, arbitrary datatype IRI
        Var([u8; 1]),
        Quoted(&'a [K<'a>; 3]),
    }
    fn txt(b: &[u8]) -> &str {
        std::str::from_utf8(b).unwrap()
    }
    const XSD_STRING: &str = "http://www.w3.org/2001/XMLSchema#string";
    impl<'a> Term for K<'a> {
        type BorrowTerm<'x> = K<'a> where Self: 'x;
        fn kind(&self) -> TermKind {
            match self {
                K::Iri(_) => TermKind::Iri,
                K::Blank(_) => TermKind::BlankNode,
                K::Lit(..) | K::LitDt(..) => TermKind::Literal,
                K::Var(_) => TermKind::Variable,
                K::Quoted(_) => TermKind::Triple,
            }
        }
        fn iri(&self) -> Option<IriRef<MownStr>> {
            match self {
                K::Iri(b) => Some(IriRef::new_unchecked(MownStr::from_ref(txt(b)))),
                _ => None,
            }
        }
        fn bnode_id(&self) -> Option<BnodeId<MownStr>> {
            match self {
                K::Blank(b) => Some(BnodeId::new_unchecked(MownStr::from_ref(txt(b)))),
                _ => None,
            }
        }
        fn lexical_form(&self) -> Option<MownStr> {
            match self {
                K::Lit(b, _, _) | K::LitDt(b, _) => Some(MownStr::from_ref(txt(b))),
                _ => None,
            }
        }
        fn datatype(&self) -> Option<IriRef<MownStr>> {
            match self {
                K::Lit(_, Some(_), _) => Some(IriRef::new_unchecked(MownStr::from_ref("http://www.w3.org/1999/02/22-rdf-syntax-ns#langString"))),
                K::Lit(_, None, true) => Some(IriRef::new_unchecked(MownStr::from_ref(XSD_STRING))),
                K::Lit(_, None, false) => Some(IriRef::new_unchecked(MownStr::from_ref("d"))),
                K::LitDt(_, dt) => Some(IriRef::new_unchecked(MownStr::from_ref(dt))),
                _ => None,
            }
        }
        fn language_tag(&self) -> Option<LanguageTag<MownStr>> {
            match self {
                K::Lit(_, Some(t), _) => Some(LanguageTag::new_unchecked(MownStr::from_ref(txt(t)))),
                _ => None,
            }
        }
        fn variable(&self) -> Option<VarName<MownStr>> {
            match self {
                K::Var(b) => Some(VarName::new_unchecked(MownStr::from_ref(txt(b)))),
                _ => None,
            }
        }
        fn triple(&self) -> Option<[K<'a>; 3]> {
            match self {
                K::Quoted(t) => Some(**t),
                _ => None,
            }
        }
        fn to_triple(self) -> Option<[Self; 3]> {
            match self {
                K::Quoted(t) => Some(*t),
                _ => None,
            }
        }
        fn borrow_term(&self) -> K<'a> {
            *self
        }
    }

    fn ascii() -> u8 {
        let b: u8 = kani::any();
        kani::assume(b < 128);
        b
    }

    fn expect(w: &Sink, want: &[u8]) {
        assert!(w.n == want.len());
        let mut i = 0;
        while i < want.len() {
            assert!(w.buf[i] == want[i]);
            i += 1;
        }
    }

    //@STUBS
    #[kani::proof]
    #[kani::unwind(5)]
    fn c03_write_term_iri() {
        let c = ascii();
        let mut w = Sink { buf: [0; 64], n: 0 };
        assert!(write_term(&mut w, K::Iri([c])).is_ok());
        expect(&w, &[b'<', c, b'>']);
    }

    //@STUBS
    #[kani::proof]
    #[kani::unwind(5)]
    fn c03_write_term_blank() {
        let c = ascii();
        let mut w = Sink { buf: [0; 64], n: 0 };
        assert!(write_term(&mut w, K::Blank([c])).is_ok());
        expect(&w, &[b'_', b':', c]);
    }

    //@STUBS
    #[kani::proof]
    #[kani::unwind(5)]
    fn c03_write_term_var() {
        let c = ascii();
        let mut w = Sink { buf: [0; 64], n: 0 };
        assert!(write_term(&mut w, K::Var([c])).is_ok());
        expect(&w, &[b'?', c]);
    }

    //@STUBS
    #[kani::proof]
    #[kani::unwind(8)]
    fn c03_write_term_lit_lang() {
        let c = ascii();
        let t = [ascii(), ascii()];
        let mut w = Sink { buf: [0; 64], n: 0 };
        assert!(write_term(&mut w, K::Lit([c], Some(t), false)).is_ok());
        let mut want = [0u8; 48];
        let n = esc_ref(&[c], &mut want);
        assert!(w.n == n + 5);
        assert!(w.buf[0] == b'"' && w.buf[n + 1] == b'"' && w.buf[n + 2] == b'@' && w.buf[n + 3] == t[0] && w.buf[n + 4] == t[1]);
    }

    //@STUBS
    #[kani::proof]
    #[kani::unwind(44)]
    fn c03_write_term_lit_datatype() {
        // datatype other than xsd:string: "lex"^^<dt>
        let mut w = Sink { buf: [0; 64], n: 0 };
        assert!(write_term(&mut w, K::Lit([b'x'], None, false)).is_ok());
        expect(&w, b"\"x\"^^<d>");
    }

    //@STUBS
    #[kani::proof]
    #[kani::unwind(44)]
    fn c03_write_term_lit_plain() {
        // xsd:string: no datatype suffix
        let mut w = Sink { buf: [0; 64], n: 0 };
        assert!(write_term(&mut w, K::Lit([b'x'], None, true)).is_ok());
        expect(&w, b"\"x\"");
    }

    // ---- whole statements: N-Triples line and N-Quads line with / without graph name ----
    //@STUBS
    #[kani::proof]
    #[kani::unwind(8)]
    fn c03_nq_statement_line() {
        use crate::serializer::nq::NqSerializer;
        use sophia_api::serializer::QuadSerializer;
        use sophia_api::source::IntoSource;
        let named: bool = kani::any();
        // concrete components: the statement framing is what is checked here (terms are covered by c03_write_term_*)
        let (a, b, c, g) = (b'a', b'b', b'c', b'g');
        let q: sophia_api::quad::Spog<K> = ([K::Iri([a]), K::Iri([b]), K::Blank([c])], if named { Some(K::Iri([g])) } else { None });
        let mut ser = NqSerializer::new(Sink { buf: [0; 64], n: 0 });
        let ok = ser.serialize_quads([q].into_iter().into_source()).is_ok();
        assert!(ok);
        let w = ser.kani_sink();
        if named {
            // the graph name is appended only for named-graph quads; one statement per line
            expect(w, &[b'<', a, b'>', b' ', b'<', b, b'>', b' ', b'_', b':', c, b' ', b'<', g, b'>', b'.', b'\n']);
        } else {
            expect(w, &[b'<', a, b'>', b' ', b'<', b, b'>', b' ', b'_', b':', c, b'.', b'\n']);
        }
    }

    /// the datatype suffix is omitted for xsd:string ONLY: near misses must keep it
    fn near_miss(dt: &'static str) {
        let mut w = Sink { buf: [0; 64], n: 0 };
        assert!(write_term(&mut w, K::LitDt([b'x'], dt)).is_ok());
        // "x"^^<dt>
        assert!(w.n == 3 + 4 + dt.len());
        assert!(w.buf[0] == b'"' && w.buf[1] == b'x' && w.buf[2] == b'"' && w.buf[3] == b'^' && w.buf[4] == b'^' && w.buf[5] == b'<');
        let d = dt.as_bytes();
        let mut i = 0;
        while i < d.len() {
            assert!(w.buf[6 + i] == d[i]);
            i += 1;
        }
        assert!(w.buf[6 + d.len()] == b'>');
    }

    //@STUBS
    #[kani::proof]
    #[kani::unwind(48)]
    fn c03_write_term_lit_near_xsd_string_a() {
        near_miss("https://www.w3.org/2001/XMLSchema#string");
    }

    //@STUBS
    #[kani::proof]
    #[kani::unwind(48)]
    fn c03_write_term_lit_near_xsd_string_b() {
        near_miss("http://www.w3.org/2001/XMLSchema#strin");
    }

    //@STUBS
    #[kani::proof]
    #[kani::unwind(48)]
    fn c03_write_term_lit_near_xsd_string_c() {
        near_miss("http://www.w3.org/2001/XMLSchema#String");
    }
}
