
#[cfg(kani)]
impl<W> NqSerializer<W> {
    /// verif overlay: read access to the writer for the C03 harness (add-only, cfg(kani))
    pub(crate) fn kani_sink(&self) -> &W {
        &self.write
    }
}
