// U-ESC: specification of the N-Triples literal escaping (W3C N-Triples ECHAR subset
// used by sophia: LF, CR, '"' and '\' are escaped, every other byte is copied).
// Assumed contract of std::io::Write::write_all: on Ok the writer's ghost
// `written()` view grew by exactly `buf`.

#[verifier::external_trait_specification]
#[verifier::external_trait_extension(WriteSpec via WriteSpecImpl)]
pub trait ExWrite {
    type ExternalTraitSpecificationFor: std::io::Write;
    spec fn written(&self) -> Seq<u8>;
    fn write_all(&mut self, buf: &[u8]) -> (r: io::Result<()>)
        ensures r is Ok ==> final(self).written() == old(self).written() + buf@;
}

#[verifier::external_type_specification]
#[verifier::external_body]
pub struct ExIoError(std::io::Error);

pub open spec fn esc1(c: u8) -> Seq<u8> {
    if c == 10u8 { seq![92u8, 110u8] }
    else if c == 13u8 { seq![92u8, 114u8] }
    else if c == 34u8 { seq![92u8, 34u8] }
    else if c == 92u8 { seq![92u8, 92u8] }
    else { seq![c] }
}

pub open spec fn special(c: u8) -> bool { c == 10u8 || c == 13u8 || c == 34u8 || c == 92u8 }

pub open spec fn esc(s: Seq<u8>) -> Seq<u8>
    decreases s.len()
{
    if s.len() == 0 { Seq::<u8>::empty() } else { esc1(s[0]) + esc(s.subrange(1, s.len() as int)) }
}

pub proof fn lemma_esc_plain_prefix(s: Seq<u8>, k: int)
    requires 0 <= k <= s.len(), forall|i: int| 0 <= i < k ==> !special(s[i]),
    ensures esc(s) == s.subrange(0, k) + esc(s.subrange(k, s.len() as int)),
    decreases k,
{
    if k == 0 {
        assert(s.subrange(0, 0) == Seq::<u8>::empty());
        assert(s.subrange(0, s.len() as int) == s);
    } else {
        let t = s.subrange(1, s.len() as int);
        lemma_esc_plain_prefix(t, k - 1);
        assert(t.subrange(k - 1, t.len() as int) == s.subrange(k, s.len() as int));
        assert(seq![s[0]] + t.subrange(0, k - 1) == s.subrange(0, k));
        assert(esc(s) == esc1(s[0]) + esc(t));
    }
}

// esc distributes over concatenation
pub proof fn lemma_esc_concat(a: Seq<u8>, b: Seq<u8>)
    ensures esc(a + b) == esc(a) + esc(b),
    decreases a.len(),
{
    if a.len() == 0 {
        assert(a + b == b);
        assert(esc(a) == Seq::<u8>::empty());
    } else {
        let ab = a + b;
        assert(ab[0] == a[0]);
        assert(ab.subrange(1, ab.len() as int) == a.subrange(1, a.len() as int) + b);
        lemma_esc_concat(a.subrange(1, a.len() as int), b);
        assert(esc(ab) == esc1(a[0]) + esc(a.subrange(1, a.len() as int) + b));
    }
}

// ---- the reader side of the W3C grammar: STRING_LITERAL_QUOTE body -------------
// unesc is the grammar's meaning function restricted to ECHAR \n \r \" \\ ;
// it is total (ill-formed input maps to itself) so that the round trip is a
// statement about esc's image only.
pub open spec fn unesc(s: Seq<u8>) -> Seq<u8>
    decreases s.len()
{
    if s.len() == 0 { Seq::<u8>::empty() }
    else if s[0] == 92u8 && s.len() >= 2 {
        let c = s[1];
        let d = if c == 110u8 { 10u8 } else if c == 114u8 { 13u8 } else { c };
        seq![d] + unesc(s.subrange(2, s.len() as int))
    } else { seq![s[0]] + unesc(s.subrange(1, s.len() as int)) }
}

pub proof fn lemma_unesc_esc(s: Seq<u8>)
    ensures unesc(esc(s)) == s,
    decreases s.len(),
{
    if s.len() == 0 {
        assert(esc(s) == Seq::<u8>::empty());
    } else {
        let t = s.subrange(1, s.len() as int);
        lemma_unesc_esc(t);
        let e = esc(s);
        assert(e == esc1(s[0]) + esc(t));
        if special(s[0]) {
            assert(e[0] == 92u8);
            assert(e.len() >= 2);
            assert(e.subrange(2, e.len() as int) == esc(t));
            assert(seq![s[0]] + t == s);
        } else {
            assert(e[0] == s[0]);
            assert(s[0] != 92u8);
            assert(e.subrange(1, e.len() as int) == esc(t));
            assert(seq![s[0]] + t == s);
        }
    }
}

// One statement per line and no unescaped delimiter: esc(s) contains no raw LF / CR,
// and it is a sequence of grammar tokens: either a byte that is not one of
// LF CR " \  or a two-byte ECHAR.  (`wf_body` is the STRING_LITERAL_QUOTE body language.)
pub open spec fn wf_body(s: Seq<u8>) -> bool
    decreases s.len()
{
    if s.len() == 0 { true }
    else if s[0] == 92u8 {
        s.len() >= 2 && (s[1] == 110u8 || s[1] == 114u8 || s[1] == 34u8 || s[1] == 92u8)
            && wf_body(s.subrange(2, s.len() as int))
    } else {
        s[0] != 10u8 && s[0] != 13u8 && s[0] != 34u8 && wf_body(s.subrange(1, s.len() as int))
    }
}

pub proof fn lemma_esc_wf(s: Seq<u8>)
    ensures wf_body(esc(s)),
        forall|i: int| 0 <= i < esc(s).len() ==> esc(s)[i] != 10u8 && esc(s)[i] != 13u8,
    decreases s.len(),
{
    if s.len() == 0 {
        assert(esc(s) == Seq::<u8>::empty());
    } else {
        let t = s.subrange(1, s.len() as int);
        lemma_esc_wf(t);
        let e = esc(s);
        assert(e == esc1(s[0]) + esc(t));
        if special(s[0]) {
            assert(e.subrange(2, e.len() as int) == esc(t));
            assert forall|i: int| 0 <= i < e.len() implies e[i] != 10u8 && e[i] != 13u8 by {
                if i >= 2 { assert(e[i] == esc(t)[i - 2]); }
            }
        } else {
            assert(e.subrange(1, e.len() as int) == esc(t));
            assert forall|i: int| 0 <= i < e.len() implies e[i] != 10u8 && e[i] != 13u8 by {
                if i >= 1 { assert(e[i] == esc(t)[i - 1]); }
            }
        }
    }
}

// UTF-8 / code points are preserved: esc is a homomorphism for concatenation
// (lemma_esc_concat), it is the identity on every run of non-special bytes -- in particular on
// every multi-byte UTF-8 sequence, whose bytes are all >= 0x80 -- and it maps an ASCII byte to
// ASCII bytes.  Hence the escaped text is the per-scalar-value concatenation
// esc(enc(c1)) + ... + esc(enc(cn)) with esc(enc(c)) == enc(c) for every c outside {LF, CR, '"', '\'}.
pub proof fn lemma_esc_identity_on_plain(s: Seq<u8>)
    requires forall|i: int| 0 <= i < s.len() ==> !special(s[i]),
    ensures esc(s) == s,
{
    lemma_esc_plain_prefix(s, s.len() as int);
    assert(s.subrange(s.len() as int, s.len() as int).len() == 0);
    assert(esc(s.subrange(s.len() as int, s.len() as int)) == Seq::<u8>::empty());
    assert(s.subrange(0, s.len() as int) == s);
}

pub proof fn lemma_esc1_ascii(c: u8)
    ensures c < 128u8 ==> forall|i: int| 0 <= i < esc1(c).len() ==> esc1(c)[i] < 128u8,
        c >= 128u8 ==> esc1(c) == seq![c],
{
}
