#[cfg(kani)]
mod verif_c02 {
    //! C02: the default Term::eq / Term::cmp / Term::hash, LanguageTag Eq/Ord/Hash and NsTerm::eq against the
    //! term's identity key (kind, strings, tag folded to lower case).  Bounded: one-byte components over {a, B}.
    use super::*;
    use crate::ns::NsTerm;
    use std::cmp::Ordering;
    use std::hash::{Hash, Hasher};

    /// hasher recording what is written, as (length, position-weighted sum, rotating xor): two terms that feed
    /// identical byte sequences get identical records (the converse holds up to checksum collisions, so a
    /// difference in the records is always a real difference in what was hashed)
    pub struct Rec {
        pub n: u64,
        pub sum: u64,
        pub rot: u64,
    }
    impl Rec {
        pub fn new() -> Self {
            Rec { n: 0, sum: 0, rot: 0 }
        }
    }
    impl Hasher for Rec {
        fn finish(&self) -> u64 {
            0
        }
        fn write(&mut self, bytes: &[u8]) {
            let mut i = 0;
            while i < bytes.len() {
                self.n += 1;
                self.sum = self.sum.wrapping_add((bytes[i] as u64 + 1).wrapping_mul(self.n));
                self.rot = self.rot.rotate_left(7) ^ (bytes[i] as u64);
                i += 1;
            }
        }
    }
    fn same(a: &Rec, b: &Rec) -> bool {
        a.n == b.n && a.sum == b.sum && a.rot == b.rot
    }

    /// kind code: 0 iri, 1 blank, 2 literal with datatype "d", 3 literal with language tag = payload2, 4 variable
    #[derive(Clone, Copy, Debug)]
    pub struct K(pub u8, pub [u8; 1], pub [u8; 1]);
    fn txt(b: &[u8; 1]) -> &str {
        std::str::from_utf8(b).unwrap()
    }
    impl Term for K {
        type BorrowTerm<'x> = K;
        fn kind(&self) -> TermKind {
            match self.0 {
                0 => TermKind::Iri,
                1 => TermKind::BlankNode,
                2 | 3 => TermKind::Literal,
                _ => TermKind::Variable,
            }
        }
        fn iri(&self) -> Option<IriRef<MownStr>> {
            if self.0 == 0 { Some(IriRef::new_unchecked(MownStr::from_ref(txt(&self.1)))) } else { None }
        }
        fn bnode_id(&self) -> Option<BnodeId<MownStr>> {
            if self.0 == 1 { Some(BnodeId::new_unchecked(MownStr::from_ref(txt(&self.1)))) } else { None }
        }
        fn lexical_form(&self) -> Option<MownStr> {
            if self.0 == 2 || self.0 == 3 { Some(MownStr::from_ref(txt(&self.1))) } else { None }
        }
        fn datatype(&self) -> Option<IriRef<MownStr>> {
            match self.0 {
                2 => Some(IriRef::new_unchecked(MownStr::from_ref("d"))),
                3 => Some(IriRef::new_unchecked(MownStr::from_ref("l"))),
                _ => None,
            }
        }
        fn language_tag(&self) -> Option<LanguageTag<MownStr>> {
            if self.0 == 3 { Some(LanguageTag::new_unchecked(MownStr::from_ref(txt(&self.2)))) } else { None }
        }
        fn variable(&self) -> Option<VarName<MownStr>> {
            if self.0 >= 4 { Some(VarName::new_unchecked(MownStr::from_ref(txt(&self.1)))) } else { None }
        }
        fn borrow_term(&self) -> K {
            *self
        }
    }
    fn letter() -> u8 {
        let b: u8 = kani::any();
        kani::assume(b == b'a' || b == b'B' || b == b'b');
        b
    }
    fn any_k() -> K {
        let k: u8 = kani::any();
        kani::assume(k <= 4);
        K(k, [letter()], [letter()])
    }
    /// identity key: (rank, payload, folded tag) with rank blank < iri < literal < (triple) < variable
    fn key(t: &K) -> (u8, u8, u8, u8) {
        let rank = match t.0 { 1 => 0, 0 => 1, 2 | 3 => 2, _ => 4 };
        // literals: ordered by datatype ("d" < "l" = langString) then tag then lexical form; the key mirrors that
        let sub = if t.0 == 3 { 1 } else { 0 };
        let tag = if t.0 == 3 { t.2[0].to_ascii_lowercase() } else { 0 };
        (rank, sub, tag, t.1[0])
    }

    //@STUBS
    #[kani::proof]
    #[kani::unwind(6)]
    fn c02_term_eq_cmp_pair() {
        let (a, b) = (any_k(), any_k());
        let (ka, kb) = (key(&a), key(&b));
        let eq = Term::eq(&a, b);
        assert!(eq == (ka == kb)); // equality depends on the term only; tags compared case-insensitively
        assert!(Term::eq(&b, a) == eq); // symmetric
        let c = Term::cmp(&a, b);
        assert!((c == Ordering::Equal) == eq); // Equal exactly for equal terms
        assert!(Term::cmp(&b, a) == c.reverse()); // antisymmetric
        assert!(c == Ord::cmp(&ka, &kb)); // blank < IRI < literal < variable, then by content
        kani::cover!(eq && a.0 == 3 && a.2[0] != b.2[0]);
    }

    //@STUBS
    #[kani::proof]
    #[kani::unwind(10)]
    fn c02_term_hash_pair() {
        let (a, b) = (any_k(), any_k());
        kani::assume(key(&a) == key(&b));
        let mut ha = Rec::new();
        let mut hb = Rec::new();
        Term::hash(&a, &mut ha);
        Term::hash(&b, &mut hb);
        assert!(same(&ha, &hb)); // equal terms feed identical bytes to any hasher
        kani::cover!(a.0 == 3 && a.2[0] != b.2[0]);
    }

    //@STUBS
    #[kani::proof]
    #[kani::unwind(6)]
    fn c02_term_cmp_transitive() {
        let (a, b, c) = (any_k(), any_k(), any_k());
        let ab = Term::cmp(&a, b);
        let bc = Term::cmp(&b, c);
        let ac = Term::cmp(&a, c);
        if ab != Ordering::Greater && bc != Ordering::Greater {
            assert!(ac != Ordering::Greater);
        }
        if ab == Ordering::Equal && bc == Ordering::Equal {
            assert!(ac == Ordering::Equal);
        }
    }

    #[kani::proof]
    #[kani::unwind(10)]
    fn c02_langtag_laws() {
        let (x, y): ([u8; 2], [u8; 2]) = (kani::any(), kani::any());
        kani::assume(x[0].is_ascii_alphabetic() && x[1].is_ascii_alphabetic() && y[0].is_ascii_alphabetic() && y[1].is_ascii_alphabetic());
        let (sx, sy) = (std::str::from_utf8(&x).unwrap(), std::str::from_utf8(&y).unwrap());
        let (a, b) = (LanguageTag::kani_new_unchecked(sx), LanguageTag::kani_new_unchecked(sy));
        let folded_eq = x[0].to_ascii_lowercase() == y[0].to_ascii_lowercase() && x[1].to_ascii_lowercase() == y[1].to_ascii_lowercase();
        assert!((a == b) == folded_eq);
        let c = Ord::cmp(&a, &b);
        assert!((c == Ordering::Equal) == folded_eq);
        assert!(Ord::cmp(&b, &a) == c.reverse());
        if folded_eq {
            let mut ha = Rec::new();
            let mut hb = Rec::new();
            a.hash(&mut ha);
            b.hash(&mut hb);
            assert!(same(&ha, &hb));
        }
        kani::cover!(folded_eq && x[0] != y[0]);
    }

    //@STUBS
    #[kani::proof]
    #[kani::unwind(8)]
    fn c02_nsterm_eq_override() {
        // NsTerm's hand-written eq (prefix + suffix comparison) agrees with equality of the whole IRI, for every
        // split point of a 3-byte IRI against every other 3-byte IRI over {a, b}
        let full: [u8; 3] = [pick(), pick(), pick()];
        let other: [u8; 3] = [pick(), pick(), pick()];
        let cut: usize = kani::any();
        kani::assume(cut <= 3);
        let olen: usize = kani::any();
        kani::assume(olen <= 3);
        let sfull = std::str::from_utf8(&full).unwrap();
        let nst = NsTerm::new_unchecked(IriRef::new_unchecked(&sfull[..cut]), &sfull[cut..]);
        let o = K(0, [0], [0]);
        let _ = o;
        let so = std::str::from_utf8(&other[..olen]).unwrap();
        let oi: IriRef<&str> = IriRef::new_unchecked(so);
        let want = olen == 3 && full == other;
        assert!(Term::eq(&nst, oi) == want);
        // a non-IRI never equals an NsTerm
        assert!(!Term::eq(&nst, K(1, [b'a'], [b'a'])));
    }
    fn pick() -> u8 {
        if kani::any() { b'a' } else { b'b' }
    }
}
