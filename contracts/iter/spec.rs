// U-ITER: contract-bearing stand-ins (R0) around the matching iterators of sophia_inmem.
//
//  * `Term`: identity key() (as in U-STORE) and term equality `eq` defined by it (C02).
//  * `BT<'a, TI>`: stand-in for the GAT `<TI::Term as Term>::BorrowTerm<'a>` (a Copy term borrowed from the index).
//  * `TermIndex::get_term(i)`: requires a valid index; the ghost function i2k gives the identity of the term.
//  * `TermMatcher` / `GraphNameMatcher`: `matches` decides the ghost predicate accepts / accepts_gn.
//  * `BTreeSetIter` / `Range`: std's B-tree iterators, abstracted as the ghost sequence still to be yielded.

pub trait Term {
    spec fn key(&self) -> int;
}

// R0: `Term::eq(a, b)` (term equality, which by C02 depends on the term's identity only)
#[verifier::external_body]
pub fn term_eq<A: Term, B: Term>(a: &A, b: B) -> (r: bool)
    ensures r == (a.key() == b.key()),
{
    unimplemented!()
}

pub trait Index: Copy + Ord {
    const ZERO: Self;
    const MAX: Self;
}

pub open spec fn eq_is_structural<I: PartialEq>() -> bool {
    &&& <I as PartialEqSpec>::obeys_eq_spec()
    &&& forall|x: I, y: I| #![trigger x.eq_spec(&y)] x.eq_spec(&y) == (x == y)
}

#[verifier::external_body]
#[verifier::accept_recursive_types(TI)]
pub struct BT<'a, TI> {
    p: std::marker::PhantomData<&'a TI>,
}

impl<'a, TI> Clone for BT<'a, TI> {
    #[verifier::external_body]
    fn clone(&self) -> (r: Self)
        ensures r == *self,
    {
        unimplemented!()
    }
}

impl<'a, TI> Copy for BT<'a, TI> {}

impl<'a, TI> Term for BT<'a, TI> {
    uninterp spec fn key(&self) -> int;
}

pub type GraphName<T> = Option<T>;

pub open spec fn gn_key<T: Term>(g: Option<T>) -> Option<int> {
    match g { None => None, Some(t) => Some(t.key()) }
}

#[verifier::external_body]
pub fn graph_name_eq<T1: Term, T2: Term>(a: GraphName<T1>, b: GraphName<T2>) -> (r: bool)
    ensures r == (gn_key(a) == gn_key(b)),
{
    unimplemented!()
}

pub trait TermIndex: Sized {
    type Term;
    type Index: Index;
    type Error;

    spec fn valid(&self, i: Self::Index) -> bool;

    spec fn i2k(&self, i: Self::Index) -> int;

    fn get_term(&self, i: Self::Index) -> (t: BT<'_, Self>)
        requires self.valid(i),
        ensures t.key() == self.i2k(i);
}

pub trait TermMatcher {
    spec fn accepts(&self, k: int) -> bool;

    fn matches<T2: Term>(&self, term: &T2) -> (b: bool)
        ensures b == self.accepts(term.key());
}

pub trait GraphNameMatcher {
    spec fn accepts_gn(&self, k: Option<int>) -> bool;

    fn matches<T2: Term>(&self, graph_name: GraphName<&T2>) -> (b: bool)
        ensures b == self.accepts_gn(match graph_name { None => None, Some(t) => Some(t.key()) });
}

#[verifier::external_body]
#[verifier::reject_recursive_types(K)]
pub struct BTreeSetIter<'a, K> {
    p: std::marker::PhantomData<&'a K>,
}

impl<'a, K> BTreeSetIter<'a, K> {
    pub uninterp spec fn rest(&self) -> Seq<K>;

    #[verifier::external_body]
    pub fn next(&mut self) -> (r: Option<&'a K>)
        ensures
            old(self).rest().len() == 0 ==> r is None && final(self).rest() == old(self).rest(),
            old(self).rest().len() > 0 ==> r == Some(&old(self).rest()[0])
                && final(self).rest() == old(self).rest().subrange(1, old(self).rest().len() as int),
    {
        unimplemented!()
    }
}

#[verifier::external_body]
#[verifier::reject_recursive_types(K)]
pub struct Range<'a, K> {
    p: std::marker::PhantomData<&'a K>,
}

impl<'a, K> Range<'a, K> {
    pub uninterp spec fn rest(&self) -> Seq<K>;

    #[verifier::external_body]
    pub fn next(&mut self) -> (r: Option<&'a K>)
        ensures
            old(self).rest().len() == 0 ==> r is None && final(self).rest() == old(self).rest(),
            old(self).rest().len() > 0 ==> r == Some(&old(self).rest()[0])
                && final(self).rest() == old(self).rest().subrange(1, old(self).rest().len() as int),
    {
        unimplemented!()
    }
}

// the result of a filtered scan: position of the first accepted element of `s` (or s.len())
pub open spec fn first_match<K>(s: Seq<K>, ok: spec_fn(K) -> bool) -> int
    decreases s.len(),
{
    if s.len() == 0 { 0 } else if ok(s[0]) { 0 } else { 1 + first_match(s.subrange(1, s.len() as int), ok) }
}

pub proof fn lemma_first_match<K>(s: Seq<K>, ok: spec_fn(K) -> bool, n: int)
    requires 0 <= n <= s.len(), forall|j: int| 0 <= j < n ==> !ok(#[trigger] s[j]), n < s.len() ==> ok(s[n]),
    ensures first_match(s, ok) == n,
    decreases s.len(),
{
    if s.len() == 0 {
    } else if n == 0 {
    } else {
        let t = s.subrange(1, s.len() as int);
        assert forall|j: int| 0 <= j < n - 1 implies !ok(#[trigger] t[j]) by { assert(t[j] == s[j + 1]); }
        if n - 1 < t.len() { assert(t[n - 1] == s[n]); }
        lemma_first_match(t, ok, n - 1);
        assert(!ok(s[0]));
    }
}
