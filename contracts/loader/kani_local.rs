#[cfg(kani)]
mod verif_c19 {
    //! C19: the file-system call made by LocalLoader::get is given a PRECONDITION: the path must stay inside the
    //! directory configured for the namespace.  std::fs::read is replaced by a stub asserting that precondition.
    use super::*;
    use std::path::{Path, PathBuf};

    const ROOT: &str = "/r";

    /// confined(path): starts with ROOT + '/', and walking its segments never climbs above ROOT
    fn confined(p: &Path) -> bool {
        let b = p.as_os_str().as_encoded_bytes();
        let r = ROOT.as_bytes();
        if b.len() < r.len() {
            return false;
        }
        let mut i = 0;
        while i < r.len() {
            if b[i] != r[i] {
                return false;
            }
            i += 1;
        }
        if i < b.len() && b[i] != b'/' {
            return false;
        }
        // segments after the root
        let mut depth: i32 = 0;
        let mut seg_start = i;
        let mut j = i;
        while j <= b.len() {
            if j == b.len() || b[j] == b'/' {
                let seg = &b[seg_start..j];
                if seg.len() == 2 && seg[0] == b'.' && seg[1] == b'.' {
                    depth -= 1;
                    if depth < 0 {
                        return false;
                    }
                } else if seg.is_empty() || (seg.len() == 1 && seg[0] == b'.') {
                } else {
                    depth += 1;
                }
                seg_start = j + 1;
            }
            j += 1;
        }
        true
    }

    /// stand-in for std::fs::read carrying the precondition
    pub fn read_with_precondition<P: AsRef<Path>>(path: P) -> std::io::Result<Vec<u8>> {
        assert!(confined(path.as_ref()), "LocalLoader reads outside its configured directory");
        kani::cover!(true, "std::fs::read reached");
        // the contract is about the call site only: what the loader does with the result is irrelevant here
        // (and its error formatting costs CBMC tens of minutes), so the path is cut after the precondition check
        kani::assume(false);
        Err(std::io::Error::from(std::io::ErrorKind::PermissionDenied))
    }

    fn run(iri: &'static str) {
        let loader = LocalLoader { caches: vec![(Iri::new_unchecked("x:/".into()), PathBuf::from(ROOT))] };
        let _ = loader.get(Iri::new_unchecked(iri));
    }

    macro_rules! rep {
        ($name:ident, $iri:expr) => {
            //@STUBS
            #[kani::proof]
            #[kani::stub(std::fs::read, read_with_precondition)]
            #[kani::unwind(24)]
            fn $name() {
                run($iri);
            }
        };
    }
    rep!(c19_rep_plain, "x:/a/b");
    rep!(c19_rep_leading_slash, "x://etc/p");
    rep!(c19_rep_dotdot, "x:/../p");
    rep!(c19_rep_inner_dotdot, "x:/a/../../p");
    rep!(c19_rep_dot_and_empty, "x:/./a//b");
    rep!(c19_rep_fragment, "x:/a#../../p");
    rep!(c19_rep_outside_namespace, "y:/a");
    rep!(c19_rep_curdir_then_parent, "x:/./../p");
    rep!(c19_rep_curdir_empty_parent, "x:/.//../p");
    rep!(c19_rep_balanced_then_parent, "x:/a/./../../p");
    // the namespace itself / only empty and '.' segments: the path is the mapped directory, nothing beside it
    rep!(c19_rep_namespace_itself, "x:/");
    rep!(c19_rep_only_dot, "x:/./");
    rep!(c19_rep_namespace_fragment, "x:/#f");
    // percent-encoded dots and slashes: whatever the loader does with them, the path opened stays inside
    rep!(c19_rep_pct_dotdot, "x:/%2e%2e/p");
    rep!(c19_rep_pct_mixed_dotdot, "x:/.%2E/p");
    rep!(c19_rep_pct_slash, "x:/..%2fp");

    /// symbolic suffix (bounded): 4 bytes over {a, ., /} after the namespace
    //@STUBS
    #[kani::proof]
    #[kani::stub(std::fs::read, read_with_precondition)]
    #[kani::unwind(16)]
    fn c19_get_confined_sym4() {
        let loader = LocalLoader { caches: vec![(Iri::new_unchecked("x:/".into()), PathBuf::from(ROOT))] };
        let mut buf = *b"x:/....";
        let n: usize = kani::any();
        kani::assume(n <= 4);
        let mut i = 0;
        while i < 4 {
            let c: u8 = kani::any();
            kani::assume(c == b'a' || c == b'.' || c == b'/');
            buf[3 + i] = c;
            i += 1;
        }
        let s = std::str::from_utf8(&buf[..3 + n]).unwrap();
        let _ = loader.get(Iri::new_unchecked(s));
    }
}
