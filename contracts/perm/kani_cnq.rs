#[cfg(kani)]
mod verif_c06_cnq {
    //! C06 kernel: canonical N-Quads escaping of RDFC-1.0 (section 5): within a literal
    //!   \b \t \n \f \r \" \\ for U+0008 U+0009 U+000A U+000C U+000D U+0022 U+005C,
    //!   \u00XX (upper-case hex) for the other characters in U+0000..U+001F and \u007F for U+007F,
    //!   every other character as is.
    use super::*;
    use sophia_api::term::{BnodeId, IriRef, LanguageTag, Term, TermKind, VarName};
    use sophia_api::MownStr;

    #[derive(Clone, Copy, Debug)]
    pub struct Lit<'a>(pub &'a str);
    impl<'a> Term for Lit<'a> {
        type BorrowTerm<'x> = Lit<'a> where Self: 'x;
        fn kind(&self) -> TermKind {
            TermKind::Literal
        }
        fn lexical_form(&self) -> Option<MownStr> {
            Some(MownStr::from_ref(self.0))
        }
        fn datatype(&self) -> Option<IriRef<MownStr>> {
            Some(IriRef::new_unchecked(MownStr::from_ref("http://www.w3.org/2001/XMLSchema#string")))
        }
        fn language_tag(&self) -> Option<LanguageTag<MownStr>> {
            None
        }
        fn borrow_term(&self) -> Lit<'a> {
            *self
        }
    }

    fn hexd(n: u8) -> u8 {
        if n < 10 { b'0' + n } else { b'A' + (n - 10) }
    }

    //@STUBS
    #[kani::proof]
    #[kani::unwind(48)]
    fn c06_cnq_escape_ascii_char() {
        // every ASCII character (the only ones the escaping table mentions)
        let c: u8 = kani::any();
        kani::assume(c < 128);
        let b = [c];
        let s = std::str::from_utf8(&b).unwrap();
        let mut out = String::new();
        nq(Lit(s), &mut out);
        let o = out.as_bytes();
        // expected: '"' esc(c) '"' ' '
        let mut want = [0u8; 12];
        let mut n = 0;
        want[n] = b'"';
        n += 1;
        let two = |x: u8, w: &mut [u8; 12], n: &mut usize| {
            w[*n] = b'\\';
            w[*n + 1] = x;
            *n += 2;
        };
        match c {
            0x08 => two(b'b', &mut want, &mut n),
            0x09 => two(b't', &mut want, &mut n),
            0x0A => two(b'n', &mut want, &mut n),
            0x0C => two(b'f', &mut want, &mut n),
            0x0D => two(b'r', &mut want, &mut n),
            0x22 => two(b'"', &mut want, &mut n),
            0x5C => two(b'\\', &mut want, &mut n),
            c if c <= 0x1F || c == 0x7F => {
                want[n] = b'\\';
                want[n + 1] = b'u';
                want[n + 2] = b'0';
                want[n + 3] = b'0';
                want[n + 4] = hexd(c >> 4);
                want[n + 5] = hexd(c & 15);
                n += 6;
            }
            c => {
                want[n] = c;
                n += 1;
            }
        }
        want[n] = b'"';
        want[n + 1] = b' ';
        n += 2;
        assert!(o.len() == n);
        let mut i = 0;
        while i < 9 {
            if i < n {
                assert!(o[i] == want[i]);
            }
            i += 1;
        }
        kani::cover!(c == 0x1F);
        kani::cover!(c == 0x7F);
        kani::cover!(c == b'a');
    }
}
