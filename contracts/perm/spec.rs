// U-PERM: Heap's algorithm (c14n/src/_permutations.rs).
// Assumed contract of <[T]>::swap (std): exchanges the two positions and nothing else.
pub assume_specification<T>[ <[T]>::swap ](s: &mut [T], a: usize, b: usize)
    requires a < old(s)@.len(), b < old(s)@.len(),
    ensures final(s)@ == old(s)@.update(a as int, old(s)@[b as int]).update(b as int, old(s)@[a as int]);

pub proof fn lemma_swap_multiset<T>(s: Seq<T>, a: int, b: int)
    requires 0 <= a < s.len(), 0 <= b < s.len(),
    ensures s.update(a, s[b]).update(b, s[a]).to_multiset() == s.to_multiset(),
{
    broadcast use vstd::seq_lib::group_to_multiset_ensures;
    let s1 = s.update(a, s[b]);
    let s2 = s1.update(b, s[a]);
    assert(s1.to_multiset() =~= s.to_multiset().insert(s[b]).remove(s[a]));
    assert(s2.to_multiset() =~= s1.to_multiset().insert(s[a]).remove(s1[b]));
    if a == b {
        assert(s2 =~= s);
    } else {
        assert(s1[b] == s[b]);
        assert(s2.to_multiset() =~= s.to_multiset());
    }
}
