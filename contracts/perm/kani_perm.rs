#[cfg(kani)]
mod verif_c06 {
    //! C06 kernel, completeness: for n distinct elements, n <= 6 (= DEFAULT_PERMUTATION_LIMIT; longer lists are
    //! rejected before the call), the callback sees exactly n! pairwise distinct arrangements.  Inputs are
    //! concrete and every loop bound is a constant, so this is a complete decision for the default configuration.
    use super::*;

    fn check<const N: usize>(fact: u32) {
        let mut a = [0u8; N];
        let mut i = 0;
        while i < N {
            a[i] = i as u8;
            i += 1;
        }
        const FACT: [usize; 7] = [1, 1, 2, 6, 24, 120, 720];
        let mut seen = [false; 720]; // one slot per permutation rank (Lehmer code)
        let mut count: u32 = 0;
        let r: Result<(), ()> = for_each_permutation_of(&mut a, |p| {
            // rank of p among the permutations of 0..N; also checks that p IS a permutation of 0..N
            let mut code: usize = 0;
            let mut j = 0;
            while j < N {
                assert!((p[j] as usize) < N);
                let mut smaller = 0;
                let mut k = j + 1;
                while k < N {
                    assert!(p[k] != p[j]);
                    if p[k] < p[j] {
                        smaller += 1;
                    }
                    k += 1;
                }
                code += smaller * FACT[N - 1 - j];
                j += 1;
            }
            assert!(!seen[code]); // pairwise distinct
            seen[code] = true;
            count += 1;
            Ok(())
        });
        assert!(r.is_ok());
        assert!(count == fact); // exactly n!
    }

    #[kani::proof]
    #[kani::unwind(8)]
    fn c06_permutations_complete_n4() {
        check::<4>(24);
    }

    #[kani::proof]
    #[kani::unwind(8)]
    fn c06_permutations_complete_n5() {
        check::<5>(120);
    }

    #[kani::proof]
    #[kani::unwind(8)]
    fn c06_permutations_complete_n6() {
        check::<6>(720);
    }

    #[kani::proof]
    #[kani::unwind(8)]
    fn c06_permutations_error_stops() {
        // the first error of the callback is returned at once and no further call is made
        let mut a = [0u8, 1, 2, 3];
        let fail_at: u32 = kani::any();
        kani::assume(fail_at < 24);
        let mut calls: u32 = 0;
        let r: Result<(), u32> = for_each_permutation_of(&mut a, |_p| {
            calls += 1;
            if calls - 1 == fail_at { Err(fail_at) } else { Ok(()) }
        });
        assert!(r == Err(fail_at));
        assert!(calls == fail_at + 1);
    }
}
