#[cfg(kani)]
mod verif_c20 {
    //! C20 contracts for native literals (overlay appended to api/src/term/_native_literal.rs)
    use super::*;

    /// xsd:integer lexical space:  [+-]?[0-9]+   (b has at most 12 bytes here)
    fn is_xsd_integer(b: &[u8]) -> bool {
        let mut i = 0;
        if i < b.len() && (b[i] == b'-' || b[i] == b'+') {
            i += 1;
        }
        if i >= b.len() {
            return false;
        }
        while i < b.len() {
            if !(b'0' <= b[i] && b[i] <= b'9') {
                return false;
            }
            i += 1;
        }
        true
    }

    //@STUBS
    #[kani::proof]
    #[kani::unwind(13)]
    fn c20_i32_lexical_form() {
        let x: i32 = kani::any();
        let lf = Term::lexical_form(&x).unwrap();
        assert!(lf.len() <= 11);
        assert!(is_xsd_integer(lf.as_bytes()));
    }

    //@STUBS
    #[kani::proof]
    #[kani::unwind(13)]
    fn c20_i32_parse_of_format() {
        let x: i32 = kani::any();
        let lf = Term::lexical_form(&x).unwrap();
        let y: Result<i32, _> = lf.parse();
        assert!(y == Ok(x));
    }

    //@STUBS
    #[kani::proof]
    #[kani::unwind(6)]
    fn c20_f64_nonfinite() {
        let x = f64::INFINITY;
        let lf = Term::lexical_form(&x).unwrap();
        assert!(&lf[..] == "INF");
    }
}
