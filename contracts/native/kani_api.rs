#[cfg(kani)]
mod verif_c20 {
    //! C20 contracts for native literals (overlay appended to api/src/term/_native_literal.rs)
    use super::*;

    /// xsd:integer lexical space:  [+-]?[0-9]+
    fn is_xsd_integer(b: &[u8]) -> bool {
        let mut i = 0;
        if i < b.len() && (b[i] == b'-' || b[i] == b'+') {
            i += 1;
        }
        if i >= b.len() {
            return false;
        }
        while i < b.len() {
            if !(b'0' <= b[i] && b[i] <= b'9') {
                return false;
            }
            i += 1;
        }
        true
    }

    /// value denoted by a string of the xsd:integer lexical space (at most 20 bytes), as i128
    fn denoted_i128(b: &[u8]) -> i128 {
        let mut i = 0;
        let mut neg = false;
        if i < b.len() && (b[i] == b'-' || b[i] == b'+') {
            neg = b[i] == b'-';
            i += 1;
        }
        let mut v: i128 = 0;
        while i < b.len() {
            v = v * 10 + (b[i] - b'0') as i128;
            i += 1;
        }
        if neg { -v } else { v }
    }

    fn dt_is(t: &impl Term, iri: &str) -> bool {
        match t.datatype() {
            Some(d) => d.as_str() == iri,
            None => false,
        }
    }

    // ---- lexical_form() is in the lexical space of the datatype, for EVERY value (complete: full domain,
    // digit loops bounded by the type's width, unwinding assertions on) ----
    //@STUBS
    #[kani::proof]
    #[kani::unwind(13)]
    fn c20_i32_lexical_form() {
        let x: i32 = kani::any();
        let lf = Term::lexical_form(&x).unwrap();
        assert!(lf.len() <= 11);
        assert!(is_xsd_integer(lf.as_bytes()));
        kani::cover!(x < 0);
        kani::cover!(x > 999_999_999);
    }

    // the lexical form DENOTES the value (so that any conforming xsd:integer reader gets it back):
    // concrete extremes and sign/length boundaries (cheap: CBMC executes them concretely) ...
    macro_rules! denotes {
        ($name:ident, $ty:ty, $v:expr, $txt:expr) => {
            //@STUBS
            #[kani::proof]
            #[kani::unwind(24)]
            fn $name() {
                let x: $ty = $v;
                let lf = Term::lexical_form(&x).unwrap();
                assert!(&lf[..] == $txt);
            }
        };
    }
    denotes!(c20_i32_min_denotes, i32, i32::MIN, "-2147483648");
    denotes!(c20_i32_max_denotes, i32, i32::MAX, "2147483647");
    denotes!(c20_i32_zero_denotes, i32, 0, "0");
    denotes!(c20_isize_min_denotes, isize, isize::MIN, "-9223372036854775808");
    denotes!(c20_usize_max_denotes, usize, usize::MAX, "18446744073709551615");

    // ... and every two-digit value symbolically (bounded)
    //@STUBS
    #[kani::proof]
    #[kani::unwind(13)]
    fn c20_i32_small_denotes() {
        let x: i32 = kani::any();
        kani::assume(-100 < x && x < 100);
        let lf = Term::lexical_form(&x).unwrap();
        assert!(is_xsd_integer(lf.as_bytes()));
        assert!(denoted_i128(lf.as_bytes()) == x as i128);
    }

    //@STUBS
    #[kani::proof]
    #[kani::unwind(22)]
    fn c20_isize_lexical_form() {
        let x: isize = kani::any();
        let lf = Term::lexical_form(&x).unwrap();
        assert!(lf.len() <= 20);
        assert!(is_xsd_integer(lf.as_bytes()));
    }

    //@STUBS
    #[kani::proof]
    #[kani::unwind(22)]
    fn c20_usize_lexical_form() {
        let x: usize = kani::any();
        let lf = Term::lexical_form(&x).unwrap();
        assert!(lf.len() <= 20);
        assert!(is_xsd_integer(lf.as_bytes()));
    }

    // ---- non-finite f64: lexical form must be INF / -INF / NaN (xsd:double lexical space) ----
    //@STUBS
    #[kani::proof]
    #[kani::unwind(6)]
    fn c20_f64_pos_inf() {
        let lf = Term::lexical_form(&f64::INFINITY).unwrap();
        assert!(&lf[..] == "INF");
    }

    //@STUBS
    #[kani::proof]
    #[kani::unwind(6)]
    fn c20_f64_neg_inf() {
        let lf = Term::lexical_form(&f64::NEG_INFINITY).unwrap();
        assert!(&lf[..] == "-INF");
    }

    //@STUBS
    #[kani::proof]
    #[kani::unwind(6)]
    fn c20_f64_nan() {
        let lf = Term::lexical_form(&f64::NAN).unwrap();
        assert!(&lf[..] == "NaN");
    }

    // ---- bool: both values, lexical form + datatype + round trip (complete: 2 values, loop bounds = IRI length) ----
    //@STUBS
    #[kani::proof]
    #[kani::unwind(50)]
    fn c20_bool_roundtrip() {
        let x: bool = kani::any();
        let lf = Term::lexical_form(&x).unwrap();
        assert!(&lf[..] == if x { "true" } else { "false" });
        assert!(dt_is(&x, "http://www.w3.org/2001/XMLSchema#boolean"));
        let y = <bool as TryFromTerm>::try_from_term(x);
        assert!(y == Ok(x));
    }

    // ---- round trip on a bounded range (bounded stand-in; the full-domain composition does not finish) ----
    //@STUBS
    #[kani::proof]
    #[kani::unwind(50)]
    fn c20_i32_roundtrip_small() {
        let x: i32 = kani::any();
        kani::assume(-100 < x && x < 100);
        assert!(dt_is(&x, "http://www.w3.org/2001/XMLSchema#integer"));
        let y = <i32 as TryFromTerm>::try_from_term(x);
        assert!(y == Ok(x));
    }

    // ---- try_from_term on arbitrary short lexical forms: never panics; Ok(v) => v is the denoted value ----
    #[derive(Debug, Clone, Copy)]
    struct Lit<'a>(&'a str, &'static str);
    impl<'a> Term for Lit<'a> {
        type BorrowTerm<'x> = Self where Self: 'x;
        fn kind(&self) -> TermKind {
            TermKind::Literal
        }
        fn lexical_form(&self) -> Option<MownStr> {
            Some(MownStr::from_ref(self.0))
        }
        fn datatype(&self) -> Option<IriRef<MownStr>> {
            Some(IriRef::new_unchecked(MownStr::from_ref(self.1)))
        }
        fn language_tag(&self) -> Option<LanguageTag<MownStr>> {
            None
        }
        fn borrow_term(&self) -> Self::BorrowTerm<'_> {
            *self
        }
    }

    fn denoted(b: &[u8]) -> Option<i64> {
        // reference evaluator for [+-]?[0-9]+ with at most 2 bytes
        let (neg, digits) = match b.first() {
            Some(b'-') => (true, &b[1..]),
            Some(b'+') => (false, &b[1..]),
            _ => (false, b),
        };
        if digits.is_empty() {
            return None;
        }
        let mut v: i64 = 0;
        let mut i = 0;
        while i < digits.len() {
            let d = digits[i];
            if !(b'0' <= d && d <= b'9') {
                return None;
            }
            v = v * 10 + (d - b'0') as i64;
            i += 1;
        }
        Some(if neg { -v } else { v })
    }

    //@STUBS
    #[kani::proof]
    #[kani::unwind(50)]
    fn c20_i32_parse_2bytes() {
        let bytes: [u8; 2] = kani::any();
        let len: usize = kani::any();
        kani::assume(len <= 2);
        kani::assume(bytes[0] < 128 && bytes[1] < 128);
        let s = std::str::from_utf8(&bytes[..len]).unwrap();
        let r = <i32 as TryFromTerm>::try_from_term(Lit(s, "http://www.w3.org/2001/XMLSchema#integer"));
        match (r, denoted(&bytes[..len])) {
            (Ok(v), Some(d)) => assert!(v as i64 == d),
            (Ok(_), None) => assert!(false),
            (Err(_), Some(_)) => assert!(false),
            (Err(_), None) => {}
        }
        let wrong = <i32 as TryFromTerm>::try_from_term(Lit(s, "http://www.w3.org/2001/XMLSchema#string"));
        assert!(wrong.is_err());
    }
}
