// U-NTTERM: contract-bearing stand-ins (R0) for write_term / write_triple (turtle/src/serializer/nt.rs).
//
// TermV is the abstract value of an RDF term (what C02 says a term IS); the stand-in `Term` trait states, for each
// accessor used by write_term, what it returns in terms of TermV.  fmt_term is the N-Triples / N-Quads term syntax.

pub enum TermV {
    Iri(Seq<u8>),
    Blank(Seq<u8>),
    // lexical form, language tag (if any), datatype IRI
    Literal(Seq<u8>, Option<Seq<u8>>, Seq<u8>),
    Triple(Box<TermV>, Box<TermV>, Box<TermV>),
    Variable(Seq<u8>),
}

pub enum TermKind { Iri, BlankNode, Literal, Triple, Variable }

pub open spec fn kind_of(v: TermV) -> TermKind {
    match v {
        TermV::Iri(_) => TermKind::Iri,
        TermV::Blank(_) => TermKind::BlankNode,
        TermV::Literal(_, _, _) => TermKind::Literal,
        TermV::Triple(_, _, _) => TermKind::Triple,
        TermV::Variable(_) => TermKind::Variable,
    }
}

pub open spec fn depth(v: TermV) -> nat
    decreases v,
{
    match v {
        TermV::Triple(s, p, o) => 1 + depth(*s) + depth(*p) + depth(*o),
        _ => 0,
    }
}

// the IRI of xsd:string, as bytes (an uninterpreted constant: only equality with it matters)
pub uninterp spec fn xsd_string() -> Seq<u8>;

pub open spec fn fmt_term(v: TermV) -> Seq<u8>
    decreases depth(v), 0nat,
{
    match v {
        TermV::Iri(s) => seq![60u8] + s + seq![62u8],                       // <iri>
        TermV::Blank(s) => seq![95u8, 58u8] + s,                           // _:label
        TermV::Variable(s) => seq![63u8] + s,                              // ?name
        TermV::Literal(lex, Some(tag), _) => seq![34u8] + esc(lex) + seq![34u8, 64u8] + tag,           // "lex"@tag
        TermV::Literal(lex, None, dt) =>
            if dt == xsd_string() { seq![34u8] + esc(lex) + seq![34u8] }                               // "lex"
            else { seq![34u8] + esc(lex) + seq![34u8, 94u8, 94u8, 60u8] + dt + seq![62u8] },          // "lex"^^<dt>
        TermV::Triple(s, p, o) => seq![60u8, 60u8] + fmt_triple(*s, *p, *o) + seq![62u8, 62u8],        // <<s p o>>
    }
}

pub open spec fn fmt_triple(s: TermV, p: TermV, o: TermV) -> Seq<u8>
    decreases depth(s) + depth(p) + depth(o), 1nat,
{
    fmt_term(s) + seq![32u8] + fmt_term(p) + seq![32u8] + fmt_term(o)
}

// string-like values returned by the accessors (MownStr, IriRef<MownStr>, BnodeId<..>, LanguageTag<..>, VarName<..>)
#[verifier::external_body]
pub struct Str { _p: () }
impl Str {
    pub uninterp spec fn view(&self) -> Seq<u8>;
    #[verifier::external_body]
    pub fn as_bytes(&self) -> (r: &[u8])
        ensures r@ == self.view(), r@.len() < usize::MAX,
    { unimplemented!() }
}

// R0: `xsd::string != dt`
#[verifier::external_body]
pub fn ne_xsd_string(dt: &Str) -> (r: bool)
    ensures r == (dt.view() != xsd_string()),
{ unimplemented!() }

pub trait Term: Sized {
    spec fn tv(&self) -> TermV;

    fn kind(&self) -> (k: TermKind)
        ensures k == kind_of(self.tv());

    fn iri(&self) -> (r: Option<Str>)
        ensures self.tv() is Iri ==> r is Some && r->Some_0.view() == self.tv()->Iri_0;

    fn bnode_id(&self) -> (r: Option<Str>)
        ensures self.tv() is Blank ==> r is Some && r->Some_0.view() == self.tv()->Blank_0;

    fn variable(&self) -> (r: Option<Str>)
        ensures self.tv() is Variable ==> r is Some && r->Some_0.view() == self.tv()->Variable_0;

    fn lexical_form(&self) -> (r: Option<Str>)
        ensures self.tv() is Literal ==> r is Some && r->Some_0.view() == self.tv()->Literal_0;

    fn language_tag(&self) -> (r: Option<Str>)
        ensures self.tv() is Literal ==> (r is Some <==> self.tv()->Literal_1 is Some)
            && (r is Some ==> r->Some_0.view() == self.tv()->Literal_1->Some_0);

    fn datatype(&self) -> (r: Option<Str>)
        ensures self.tv() is Literal ==> r is Some && r->Some_0.view() == self.tv()->Literal_2;

    fn to_triple(self) -> (r: Option<[Self; 3]>)
        ensures self.tv() is Triple ==> r is Some
            && r->Some_0[0].tv() == *self.tv()->Triple_0
            && r->Some_0[1].tv() == *self.tv()->Triple_1
            && r->Some_0[2].tv() == *self.tv()->Triple_2;
}

// borrowed component of a triple (GAT TBorrowTerm<Self> in the real trait)
pub trait Triple: Sized {
    type BT: Term;
    spec fn sv(&self) -> TermV;
    spec fn pv(&self) -> TermV;
    spec fn ov(&self) -> TermV;
    fn s(&self) -> (r: Self::BT) ensures r.tv() == self.sv();
    fn p(&self) -> (r: Self::BT) ensures r.tv() == self.pv();
    fn o(&self) -> (r: Self::BT) ensures r.tv() == self.ov();
}

impl<T: Term> Triple for [T; 3] {
    // the real impl returns a borrowed copy (BorrowTerm) of each component; its abstract value is the component's
    type BT = T;
    open spec fn sv(&self) -> TermV { self[0].tv() }
    open spec fn pv(&self) -> TermV { self[1].tv() }
    open spec fn ov(&self) -> TermV { self[2].tv() }
    #[verifier::external_body] fn s(&self) -> (r: T) { unimplemented!() }
    #[verifier::external_body] fn p(&self) -> (r: T) { unimplemented!() }
    #[verifier::external_body] fn o(&self) -> (r: T) { unimplemented!() }
}
