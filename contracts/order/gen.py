"""C14: harnesses for the numeric comparison kernel `impl PartialOrd for &SparqlNumber` (sparql/src/value/_number.rs)."""
KINDS = ["NativeInt", "Float", "Double"]

HEADER = r'''
#[cfg(kani)]
mod verif_c14 {
    //! C14 kernel: the order used by ORDER BY on numeric values must be a total preorder on the non-NaN fragment
    //! {NativeInt(isize), Float(f32), Double(f64)}: comparable (Some), antisymmetric, transitive (<= and Equal).
    use super::*;
    use std::cmp::Ordering;

    fn int() -> SparqlNumber {
        SparqlNumber::NativeInt(kani::any())
    }
    /// integers that every coercion used by the comparison represents exactly (|i| <= 2^24)
    fn small_int() -> SparqlNumber {
        let i: isize = kani::any();
        kani::assume(-16_777_216 <= i && i <= 16_777_216);
        SparqlNumber::NativeInt(i)
    }
    fn flt() -> SparqlNumber {
        let f: f32 = kani::any();
        kani::assume(!f.is_nan());
        SparqlNumber::Float(f)
    }
    fn dbl() -> SparqlNumber {
        let f: f64 = kani::any();
        kani::assume(!f.is_nan());
        SparqlNumber::Double(f)
    }
    fn cmp(a: &SparqlNumber, b: &SparqlNumber) -> Option<Ordering> {
        PartialOrd::partial_cmp(&a, &b)
    }
    fn check(a: SparqlNumber, b: SparqlNumber, c: SparqlNumber) {
        let ab = cmp(&a, &b);
        let ba = cmp(&b, &a);
        let bc = cmp(&b, &c);
        let ac = cmp(&a, &c);
        // SPARQL '<' is defined between any two numerics: the comparison never gives up
        assert!(ab.is_some() && ba.is_some() && bc.is_some() && ac.is_some());
        let (ab, ba, bc, ac) = (ab.unwrap(), ba.unwrap(), bc.unwrap(), ac.unwrap());
        assert!(ab == ba.reverse()); // antisymmetry
        if ab != Ordering::Greater && bc != Ordering::Greater {
            assert!(ac != Ordering::Greater); // transitivity of <=
        }
        if ab == Ordering::Equal && bc == Ordering::Equal {
            assert!(ac == Ordering::Equal); // Equal is an equivalence
        }
        kani::cover!(ab == Ordering::Less && bc == Ordering::Less);
        kani::cover!(ab == Ordering::Equal && bc == Ordering::Equal);
    }
'''

MK = {"NativeInt": "int()", "Float": "flt()", "Double": "dbl()"}
MK_EXACT = {"NativeInt": "small_int()", "Float": "flt()", "Double": "dbl()"}


REP = r'''
    /// integers beyond 64 bits against every native integer: sign and magnitude decide, whatever the native value
    #[kani::proof]
    #[kani::unwind(8)]
    fn c14_rep_bigint_vs_native() {
        let neg = SparqlNumber::BigInt(num_bigint::BigInt::from(-100000000000000000000000i128));
        let pos = SparqlNumber::BigInt(num_bigint::BigInt::from(100000000000000000000000i128));
        let n = int();
        assert!(cmp(&neg, &n) == Some(Ordering::Less));
        assert!(cmp(&n, &neg) == Some(Ordering::Greater));
        assert!(cmp(&pos, &n) == Some(Ordering::Greater));
        assert!(cmp(&n, &pos) == Some(Ordering::Less));
        assert!(cmp(&neg, &pos) == Some(Ordering::Less));
        assert!(cmp(&neg, &neg) == Some(Ordering::Equal));
    }

    /// a SMALL integer carried as a big integer (the result of big-integer arithmetic) against every native integer:
    /// ordered by value, both operand orders
    #[kani::proof]
    #[kani::unwind(8)]
    fn c14_rep_small_bigint_vs_native() {
        let five = SparqlNumber::BigInt(num_bigint::BigInt::from(5i32));
        let minus_three = SparqlNumber::BigInt(num_bigint::BigInt::from(-3i32));
        let v: isize = kani::any();
        let n = SparqlNumber::NativeInt(v);
        assert!(cmp(&five, &n) == Some(5isize.cmp(&v)));
        assert!(cmp(&n, &five) == Some(v.cmp(&5isize)));
        assert!(cmp(&minus_three, &n) == Some((-3isize).cmp(&v)));
        assert!(cmp(&n, &minus_three) == Some(v.cmp(&-3isize)));
        assert!(cmp(&minus_three, &five) == Some(Ordering::Less));
    }
'''


def triples():
    return [(a, b, c) for a in KINDS for b in KINDS for c in KINDS]


def name(prefix, t):
    return "%s_%s_%s_%s" % (prefix, t[0].lower(), t[1].lower(), t[2].lower())


def generate():
    """full-domain harnesses c14_num_* and exact-fragment harnesses c14_exact_* (integers within +-2^24)."""
    full, exact, body = [], [], []
    for t in triples():
        n = name("c14_num", t)
        full.append(n)
        body.append("\n    #[kani::proof]\n    fn %s() {\n        check(%s, %s, %s);\n    }\n" % (n, MK[t[0]], MK[t[1]], MK[t[2]]))
        if "NativeInt" in t:
            n = name("c14_exact", t)
            exact.append(n)
            body.append("\n    #[kani::proof]\n    fn %s() {\n        check(%s, %s, %s);\n    }\n" % (n, MK_EXACT[t[0]], MK_EXACT[t[1]], MK_EXACT[t[2]]))
    return full, exact, HEADER + "".join(body) + REP + "}\n"
