#[cfg(kani)]
mod verif_c07 {
    //! C07 kernel contract: IsoTerm(a) == IsoTerm(b)  <=>  a and b are the same term once EVERY blank node,
    //! at any nesting depth, is replaced by one fixed node; Ord is consistent with that equality.
    use super::*;
    use sophia_api::term::{BnodeId, LanguageTag, Term, TermKind, VarName};
    use sophia_api::MownStr;
    use sophia_iri::IriRef;

    /// harness term: an atom (kind code 0 iri, 1 blank, 2 literal xsd-ish, 3 variable) with a one-byte payload,
    /// or a quoted triple of atoms
    #[derive(Clone, Copy, Debug)]
    pub enum K<'a> {
        Atom(u8, [u8; 1]),
        Quoted(&'a [K<'a>; 3]),
    }
    fn txt(b: &[u8; 1]) -> &str {
        std::str::from_utf8(b).unwrap()
    }
    impl<'a> Term for K<'a> {
        type BorrowTerm<'x> = K<'a> where Self: 'x;
        fn kind(&self) -> TermKind {
            match self {
                K::Atom(0, _) => TermKind::Iri,
                K::Atom(1, _) => TermKind::BlankNode,
                K::Atom(2, _) => TermKind::Literal,
                K::Atom(_, _) => TermKind::Variable,
                K::Quoted(_) => TermKind::Triple,
            }
        }
        fn iri(&self) -> Option<IriRef<MownStr>> {
            match self {
                K::Atom(0, b) => Some(IriRef::new_unchecked(MownStr::from_ref(txt(b)))),
                _ => None,
            }
        }
        fn bnode_id(&self) -> Option<BnodeId<MownStr>> {
            match self {
                K::Atom(1, b) => Some(BnodeId::new_unchecked(MownStr::from_ref(txt(b)))),
                _ => None,
            }
        }
        fn lexical_form(&self) -> Option<MownStr> {
            match self {
                K::Atom(2, b) => Some(MownStr::from_ref(txt(b))),
                _ => None,
            }
        }
        fn datatype(&self) -> Option<IriRef<MownStr>> {
            match self {
                K::Atom(2, _) => Some(IriRef::new_unchecked(MownStr::from_ref("d"))),
                _ => None,
            }
        }
        fn language_tag(&self) -> Option<LanguageTag<MownStr>> {
            None
        }
        fn variable(&self) -> Option<VarName<MownStr>> {
            match self {
                K::Atom(k, b) if *k >= 3 => Some(VarName::new_unchecked(MownStr::from_ref(txt(b)))),
                _ => None,
            }
        }
        fn triple(&self) -> Option<[K<'a>; 3]> {
            match self {
                K::Quoted(t) => Some(**t),
                _ => None,
            }
        }
        fn to_triple(self) -> Option<[Self; 3]> {
            match self {
                K::Quoted(t) => Some(*t),
                _ => None,
            }
        }
        fn borrow_term(&self) -> K<'a> {
            *self
        }
    }

    fn any_atom() -> K<'static> {
        let k: u8 = kani::any();
        kani::assume(k <= 3);
        let b: u8 = kani::any();
        kani::assume(b == b'a' || b == b'b');
        K::Atom(k, [b])
    }

    /// reference: equality with all blank nodes blanked out (atoms)
    fn ref_eq_atom(a: &K, b: &K) -> bool {
        match (a, b) {
            (K::Atom(1, _), K::Atom(1, _)) => true,
            (K::Atom(k1, p1), K::Atom(k2, p2)) => (*k1).min(3) == (*k2).min(3) && p1 == p2,
            _ => false,
        }
    }

    //@STUBS
    #[kani::proof]
    #[kani::unwind(6)]
    fn c07_isoterm_atoms() {
        let (a, b) = (any_atom(), any_atom());
        let eq = IsoTerm(a) == IsoTerm(b);
        assert!(eq == ref_eq_atom(&a, &b));
        assert!((IsoTerm(b) == IsoTerm(a)) == eq);
        let c = Ord::cmp(&IsoTerm(a), &IsoTerm(b));
        assert!((c == Ordering::Equal) == eq);
        assert!(Ord::cmp(&IsoTerm(b), &IsoTerm(a)) == c.reverse());
        assert!(IsoTerm(a).partial_cmp(&IsoTerm(b)) == Some(c));
        kani::cover!(eq && matches!(a, K::Atom(1, _)));
        kani::cover!(!eq);
    }

    //@STUBS
    #[kani::proof]
    #[kani::unwind(6)]
    fn c07_isoterm_quoted() {
        // subject and object symbolic, predicate a fixed IRI (keeps CBMC's cost down; the code treats the three
        // positions uniformly)
        let ta = [any_atom(), K::Atom(0, [b'p']), any_atom()];
        let tb = [any_atom(), K::Atom(0, [b'p']), any_atom()];
        let (a, b) = (K::Quoted(&ta), K::Quoted(&tb));
        let want = ref_eq_atom(&ta[0], &tb[0]) && ref_eq_atom(&ta[1], &tb[1]) && ref_eq_atom(&ta[2], &tb[2]);
        let eq = IsoTerm(a) == IsoTerm(b);
        assert!(eq == want);
        let c = Ord::cmp(&IsoTerm(a), &IsoTerm(b));
        assert!((c == Ordering::Equal) == want);
        assert!(Ord::cmp(&IsoTerm(b), &IsoTerm(a)) == c.reverse());
        // a quoted triple never equals an atom
        let x = any_atom();
        assert!(!(IsoTerm(a) == IsoTerm(x)));
        kani::cover!(want && matches!(ta[0], K::Atom(1, _)));
    }

    fn quoted_one_position(pos: usize) {
        // one symbolic position (a pair of atoms), the two others fixed and equal
        let (x, y) = (any_atom(), any_atom());
        let f = K::Atom(0, [b'f']);
        let mut ta = [f, f, f];
        let mut tb = [f, f, f];
        ta[pos] = x;
        tb[pos] = y;
        let (a, b) = (K::Quoted(&ta), K::Quoted(&tb));
        let want = ref_eq_atom(&x, &y);
        assert!((IsoTerm(a) == IsoTerm(b)) == want);
        let c = Ord::cmp(&IsoTerm(a), &IsoTerm(b));
        assert!((c == Ordering::Equal) == want);
        assert!(Ord::cmp(&IsoTerm(b), &IsoTerm(a)) == c.reverse());
        kani::cover!(want && matches!(x, K::Atom(1, _)));
    }

    //@STUBS
    #[kani::proof]
    #[kani::unwind(6)]
    fn c07_isoterm_quoted_subject() {
        quoted_one_position(0);
    }

    //@STUBS
    #[kani::proof]
    #[kani::unwind(6)]
    fn c07_isoterm_quoted_predicate() {
        quoted_one_position(1);
    }

    //@STUBS
    #[kani::proof]
    #[kani::unwind(6)]
    fn c07_isoterm_quoted_object() {
        quoted_one_position(2);
    }
}
