// U-REL: stand-ins (R0) around Relativizer::relativize (iri/src/relativize.rs).
//
// `resolves_to(base, reference, result)` is RFC 3986 section 5.2 reference resolution AS IMPLEMENTED by
// BaseIri::resolve (oxiri): an uninterpreted relation; the assumed contract of `resolve` is that an Ok result is
// related to its arguments, and the relation is functional (one result per base and reference).
// Nothing is assumed about `candidate`, the prefix-based heuristic: whatever it returns, the guard must make the
// postcondition hold.

pub uninterp spec fn resolves_to(base: Seq<char>, reference: Seq<char>, result: Seq<char>) -> bool;

pub broadcast axiom fn axiom_resolution_is_functional(base: Seq<char>, reference: Seq<char>, r1: Seq<char>, r2: Seq<char>)
    requires #[trigger] resolves_to(base, reference, r1), #[trigger] resolves_to(base, reference, r2),
    ensures r1 == r2;

pub uninterp spec fn valid_iri_ref(s: Seq<char>) -> bool;

#[verifier::external_body]
pub struct IriParseError { _p: () }
#[verifier::external_body]
pub struct InvalidIri { _p: () }

// Cow<'a, str>: only its string view matters
#[verifier::external_body]
pub struct CowStr<'a> { p: std::marker::PhantomData<&'a str> }
impl<'a> CowStr<'a> {
    pub uninterp spec fn view(&self) -> Seq<char>;
}

// sophia_iri::Iri<&'a str>
pub struct Iri<'a> { pub s: &'a str }
impl<'a> Iri<'a> {
    pub fn unwrap(self) -> (r: &'a str)
        ensures r@ == self.s@,
    {
        self.s
    }
}

// the absolute IRI returned by resolve (Iri<String>)
#[verifier::external_body]
pub struct IriString { _p: () }
impl IriString {
    pub uninterp spec fn view(&self) -> Seq<char>;
    #[verifier::external_body]
    pub fn as_str(&self) -> (r: &str)
        ensures r@ == self.view(),
    { unimplemented!() }
}

// sophia_iri::IriRef<Cow<'a, str>>
#[verifier::external_body]
pub struct IriRef<'a> { p: std::marker::PhantomData<&'a str> }
impl<'a> IriRef<'a> {
    pub uninterp spec fn view(&self) -> Seq<char>;
    // IriRef::new validates with the IRI-reference regex
    #[verifier::external_body]
    pub fn new(c: CowStr<'a>) -> (r: Result<IriRef<'a>, InvalidIri>)
        ensures r is Ok ==> r->Ok_0.view() == c.view() && valid_iri_ref(c.view()),
    { unimplemented!() }
    #[verifier::external_body]
    pub fn as_str(&self) -> (r: &str)
        ensures r@ == self.view(),
    { unimplemented!() }
}

// sophia_iri::resolve::BaseIri<T>
#[verifier::external_body]
pub struct BaseIri { _p: () }
impl BaseIri {
    pub uninterp spec fn view(&self) -> Seq<char>;
    #[verifier::external_body]
    pub fn resolve(&self, reference: &str) -> (r: Result<IriString, IriParseError>)
        ensures r is Ok ==> resolves_to(self.view(), reference@, r->Ok_0.view()),
    { unimplemented!() }
}

// R0: `a == b` on &str
#[verifier::external_body]
pub fn str_eq(a: &str, b: &str) -> (r: bool)
    ensures r == (a@ == b@),
{ unimplemented!() }

pub struct Relativizer {
    pub base: BaseIri,
}
