#[cfg(kani)]
mod verif_c01_dispatch {
    //! C01, bounded: the index selection / range scans of triples_matching on the real GenericFastGraph and
    //! GenericLightGraph, for a CONCRETE store of three triples over three terms and SYMBOLIC matchers (an arbitrary
    //! predicate over the three terms, exposing constant() exactly when it accepts a single term, or a constant that
    //! is not in the store).  Oracle: filtering the three triples.
    use super::*;
    use crate::index::{Index, TermIndex, TermIndexFullError};
    use sophia_api::term::matcher::TermMatcher;
    use sophia_api::term::{BnodeId, Term, TermKind};
    use sophia_api::MownStr;
    use sophia_api::dataset::{Dataset, MutableDataset};
    use sophia_api::quad::Quad;

    const IDS: [&str; 5] = ["0", "1", "2", "3", "4"];

    #[derive(Clone, Copy, Debug)]
    pub struct K(pub u8);
    impl Term for K {
        type BorrowTerm<'x> = K;
        fn kind(&self) -> TermKind {
            TermKind::BlankNode
        }
        fn bnode_id(&self) -> Option<BnodeId<MownStr>> {
            Some(BnodeId::new_unchecked(MownStr::from_ref(IDS[(self.0 % 5) as usize])))
        }
        fn borrow_term(&self) -> K {
            *self
        }
    }
    fn id<T: Term + ?Sized>(t: &T) -> u8 {
        t.bnode_id().unwrap().as_str().as_bytes()[0] - b'0'
    }

    /// dense, hash-free term index meeting the TermIndex contract (the real SimpleTermIndex is out of CBMC's reach)
    #[derive(Default)]
    pub struct Dense {
        n: u16,
        terms: [u8; 4],
    }
    impl TermIndex for Dense {
        type Term = K;
        type Index = u16;
        type Error = TermIndexFullError;
        fn get_index<T: Term>(&self, t: T) -> Option<u16> {
            let x = id(&t);
            let mut i = 0;
            while i < self.n {
                if self.terms[i as usize] == x {
                    return Some(i);
                }
                i += 1;
            }
            None
        }
        fn ensure_index<T: Term>(&mut self, t: T) -> Result<u16, TermIndexFullError> {
            let x = id(&t);
            if let Some(i) = self.get_index(K(x)) {
                return Ok(i);
            }
            if self.n >= 4 {
                return Err(TermIndexFullError());
            }
            self.terms[self.n as usize] = x;
            self.n += 1;
            Ok(self.n - 1)
        }
        fn get_term(&self, i: u16) -> K {
            K(self.terms[i as usize])
        }
    }

    /// symbolic matcher over the alphabet {0,1,2,3}: accepts term x iff bit x of `mask`; exposes a constant only
    /// when it accepts exactly one term (TermMatcher's contract), if `hint` says so
    pub struct SymM {
        mask: u8,
        hint: bool,
        k: K,
    }
    fn any_m() -> SymM {
        let mask: u8 = kani::any();
        kani::assume(mask < 16);
        let hint: bool = kani::any();
        let k = match mask {
            1 => K(0),
            2 => K(1),
            4 => K(2),
            8 => K(3),
            _ => K(4),
        };
        SymM { mask, hint: hint && (mask == 1 || mask == 2 || mask == 4 || mask == 8), k }
    }
    impl TermMatcher for SymM {
        type Term = K;
        fn matches<T2: Term + ?Sized>(&self, term: &T2) -> bool {
            let x = id(term);
            x < 4 && (self.mask >> x) & 1 == 1
        }
        fn constant(&self) -> Option<&K> {
            if self.hint { Some(&self.k) } else { None }
        }
    }

    // ---- concrete stores, concrete matchers: every bound/unbound shape of the dispatch --------------------
    // quads [g, s, p, o] with g == 9 for the default graph.  The store is chosen so that each shape separates a
    // correct dispatch from the usual slips: the probe triple occurs in the default graph AND in a named graph,
    // some terms occur in two positions, a term is used both as subject and as graph name.
    const QUADS: [[u8; 4]; 6] = [[9, 0, 1, 2], [3, 0, 1, 2], [9, 0, 1, 0], [0, 2, 1, 0], [3, 2, 1, 2], [9, 2, 2, 2]];
    const PROBE: [u8; 4] = [9, 0, 1, 2];

    impl crate::index::GraphNameIndex for Dense {
        fn get_default_graph_index(&self) -> u16 {
            u16::MAX
        }
    }

    fn gname(g: u8) -> Option<K> {
        if g == 9 { None } else { Some(K(g)) }
    }

    /// run one shape (bit 0: s bound, 1: p, 2: o, 3: g) on dataset type D and compare with the filtered QUADS
    fn check_shape<D: Dataset + MutableDataset + Default>(shape: u8, probe: [u8; 4])
    where
        for<'x> D::Quad<'x>: Quad,
    {
        use sophia_api::term::matcher::Any;
        let mut d = D::default();
        let mut i = 0;
        while i < 6 {
            let q = QUADS[i];
            assert!(matches!(d.insert(K(q[1]), K(q[2]), K(q[3]), gname(q[0])), Ok(true)));
            i += 1;
        }
        let mut seen = [false; 6];
        let mut n = 0;
        macro_rules! run {
            ($s:expr, $p:expr, $o:expr, $g:expr) => {
                for q in d.quads_matching($s, $p, $o, $g) {
                    let q = match q {
                        Ok(q) => q,
                        Err(_) => {
                            assert!(false);
                            return;
                        }
                    };
                    let got = [q.g().map(|t| id(&t)).unwrap_or(9), id(&q.s()), id(&q.p()), id(&q.o())];
                    let mut which = 6;
                    let mut j = 0;
                    while j < 6 {
                        if QUADS[j] == got {
                            which = j;
                        }
                        j += 1;
                    }
                    assert!(which < 6); // a member of the store
                    assert!(!seen[which]); // given once
                    seen[which] = true;
                    n += 1;
                }
            };
        }
        let (s, p, o, g) = ([K(probe[1])], [K(probe[2])], [K(probe[3])], [gname(probe[0])]);
        match shape {
            0 => run!(Any, Any, Any, Any),
            1 => run!(s, Any, Any, Any),
            2 => run!(Any, p, Any, Any),
            3 => run!(s, p, Any, Any),
            4 => run!(Any, Any, o, Any),
            5 => run!(s, Any, o, Any),
            6 => run!(Any, p, o, Any),
            7 => run!(s, p, o, Any),
            8 => run!(Any, Any, Any, g),
            9 => run!(s, Any, Any, g),
            10 => run!(Any, p, Any, g),
            11 => run!(s, p, Any, g),
            12 => run!(Any, Any, o, g),
            13 => run!(s, Any, o, g),
            14 => run!(Any, p, o, g),
            _ => run!(s, p, o, g),
        }
        // exactly the matching members
        let mut j = 0;
        while j < 6 {
            let q = QUADS[j];
            let m = (shape & 1 == 0 || q[1] == probe[1]) && (shape & 2 == 0 || q[2] == probe[2]) && (shape & 4 == 0 || q[3] == probe[3]) && (shape & 8 == 0 || q[0] == probe[0]);
            assert!(seen[j] == m);
            j += 1;
        }
        let _ = n;
    }

    macro_rules! shapes {
        ($($name:ident, $ty:ty, $shape:expr;)*) => { $(
            //@STUBS
            #[kani::proof]
            #[kani::unwind(10)]
            fn $name() {
                check_shape::<$ty>($shape, PROBE);
            }
        )* };
    }
    shapes! {
        c01_shape_fast_ds_05, crate::dataset::GenericFastDataset<Dense>, 5;
        c01_shape_light_ds_05, crate::dataset::GenericLightDataset<Dense>, 5;
        c01_shape_fast_ds_00, crate::dataset::GenericFastDataset<Dense>, 0;
    }

    const STORE: [[u8; 3]; 3] = [[0, 1, 2], [0, 1, 0], [2, 1, 0]];

    fn check<G: Graph + MutableGraph + Default>()
    where
        for<'x> G::Triple<'x>: Triple,
    {
        let mut g = G::default();
        let mut i = 0;
        while i < 3 {
            let r = g.insert(K(STORE[i][0]), K(STORE[i][1]), K(STORE[i][2]));
            assert!(matches!(r, Ok(true)));
            i += 1;
        }
        let (sm, pm, om) = (any_m(), any_m(), any_m());
        let (s_mask, p_mask, o_mask) = (sm.mask, pm.mask, om.mask);
        let mut seen = [false; 3];
        let mut n = 0;
        for t in g.triples_matching(sm, pm, om) {
            let t = match t {
                Ok(t) => t,
                Err(_) => {
                    assert!(false);
                    return;
                }
            };
            let (s, p, o) = (id(&t.s()), id(&t.p()), id(&t.o()));
            // every answer is a member of the store that matches, and is given once
            let mut which = 3;
            let mut j = 0;
            while j < 3 {
                if STORE[j] == [s, p, o] {
                    which = j;
                }
                j += 1;
            }
            assert!(which < 3);
            assert!(!seen[which]);
            seen[which] = true;
            assert!((s_mask >> s) & 1 == 1 && (p_mask >> p) & 1 == 1 && (o_mask >> o) & 1 == 1);
            n += 1;
        }
        // and every matching member is answered
        let mut j = 0;
        while j < 3 {
            let m = (s_mask >> STORE[j][0]) & 1 == 1 && (p_mask >> STORE[j][1]) & 1 == 1 && (o_mask >> STORE[j][2]) & 1 == 1;
            assert!(seen[j] == m);
            j += 1;
        }
        kani::cover!(n == 3);
        kani::cover!(n == 0);
    }

    //@STUBS
    #[kani::proof]
    #[kani::unwind(8)]
    fn c01_dispatch_fast_graph() {
        check::<GenericFastGraph<Dense>>();
    }

    //@STUBS
    #[kani::proof]
    #[kani::unwind(8)]
    fn c01_dispatch_light_graph() {
        check::<GenericLightGraph<Dense>>();
    }
}
