// U-STORE: contract-bearing stand-ins (R0) for the traits around the in-memory stores,
// and the set-theoretic lemmas used by insert/remove.

// ---- R0 stand-ins ---------------------------------------------------------------------------
// `Term`: only the *identity* of the RDF term matters here (C02: equality/hash depend on the term
// only); `key()` is that identity as a ghost value.
pub trait Term {
    spec fn key(&self) -> int;
}

pub trait Index: Copy + Ord {
    const ZERO: Self;
    const MAX: Self;
}

pub type GraphName<T> = Option<T>;

// Contract of a term index (checked against the real SimpleTermIndex by the Kani unit U-INDEX):
//  * t2i() is the ghost term->index map; it is injective and never issues the default-graph index;
//  * get_index is a pure lookup; ensure_index returns the existing index or extends the map by a
//    fresh one; on Err the map is unchanged.
pub trait TermIndex: Sized {
    type Index: Index;
    type Error;

    spec fn t2i(&self) -> Map<int, Self::Index>;

    spec fn reserved(&self) -> Self::Index;

    fn get_index<T: Term>(&self, t: T) -> (r: Option<Self::Index>)
        requires inj_map(self.t2i()), avoids(self.t2i(), self.reserved()),
        ensures
            self.t2i().contains_key(t.key()) ==> r == Some(self.t2i()[t.key()]),
            !self.t2i().contains_key(t.key()) ==> r is None;

    fn ensure_index<T: Term>(&mut self, t: T) -> (r: Result<Self::Index, Self::Error>)
        requires inj_map(old(self).t2i()), avoids(old(self).t2i(), old(self).reserved()),
        ensures
            inj_map(final(self).t2i()), avoids(final(self).t2i(), final(self).reserved()),
            final(self).reserved() == old(self).reserved(),
            r is Err ==> final(self).t2i() == old(self).t2i(),
            r is Ok ==> final(self).t2i() == old(self).t2i().insert(t.key(), r->Ok_0),
            r is Ok && old(self).t2i().contains_key(t.key()) ==> old(self).t2i()[t.key()] == r->Ok_0;
}

pub open spec fn ti_wf<TI: TermIndex>(ti: &TI) -> bool {
    &&& inj_map(ti.t2i())
    &&& avoids(ti.t2i(), ti.reserved())
}

pub trait GraphNameIndex: TermIndex {
    fn get_default_graph_index(&self) -> (r: Self::Index)
        ensures r == self.reserved();
}

pub open spec fn inj_map<I>(m: Map<int, I>) -> bool {
    forall|k1: int, k2: int| #![trigger m[k1], m[k2]] m.contains_key(k1) && m.contains_key(k2) && m[k1] == m[k2] ==> k1 == k2
}

pub open spec fn avoids<I>(m: Map<int, I>, r: I) -> bool {
    forall|k: int| #![trigger m[k]] m.contains_key(k) ==> m[k] != r
}

// m1 extends m0
pub open spec fn sub_map<I>(m0: Map<int, I>, m1: Map<int, I>) -> bool {
    forall|x: int| #![trigger m0.contains_key(x)] m0.contains_key(x) ==> m1.contains_key(x) && m1[x] == m0[x]
}

pub proof fn lemma_sub_insert<I>(m0: Map<int, I>, k: int, i: I)
    requires m0.contains_key(k) ==> m0[k] == i,
    ensures sub_map(m0, m0.insert(k, i)),
{
}

pub proof fn lemma_sub_trans<I>(a: Map<int, I>, b: Map<int, I>, c: Map<int, I>)
    requires sub_map(a, b), sub_map(b, c),
    ensures sub_map(a, c),
{
    assert forall|x: int| #![trigger a.contains_key(x)] a.contains_key(x) implies c.contains_key(x) && c[x] == a[x] by {
        assert(b.contains_key(x));
    }
}

pub open spec fn in_range<I>(m: Map<int, I>, i: I) -> bool {
    exists|k: int| m.contains_key(k) && m[k] == i
}

// ---- permutations of index tuples -------------------------------------------------------------
pub open spec fn rot1<I>(t: [I; 3]) -> [I; 3] { [t[1], t[2], t[0]] }
pub open spec fn rot2<I>(t: [I; 3]) -> [I; 3] { [t[2], t[0], t[1]] }
pub open spec fn rot1_fn<I>() -> spec_fn([I; 3]) -> [I; 3] { |t: [I; 3]| rot1(t) }
pub open spec fn rot2_fn<I>() -> spec_fn([I; 3]) -> [I; 3] { |t: [I; 3]| rot2(t) }

pub proof fn lemma_rot1_inj<I>(a: [I; 3], b: [I; 3])
    requires rot1(a) == rot1(b),
    ensures a == b,
{
    assert(rot1(a)[0] == a[1] && rot1(a)[1] == a[2] && rot1(a)[2] == a[0]);
    assert(rot1(b)[0] == b[1] && rot1(b)[1] == b[2] && rot1(b)[2] == b[0]);
    assert(a@ =~= b@);
}

pub proof fn lemma_rot2_inj<I>(a: [I; 3], b: [I; 3])
    requires rot2(a) == rot2(b),
    ensures a == b,
{
    assert(rot2(a)[0] == a[2] && rot2(a)[1] == a[0] && rot2(a)[2] == a[1]);
    assert(rot2(b)[0] == b[2] && rot2(b)[1] == b[0] && rot2(b)[2] == b[1]);
    assert(a@ =~= b@);
}

pub open spec fn injective<A, B>(f: spec_fn(A) -> B) -> bool {
    forall|x: A, y: A| #![trigger f(x), f(y)] f(x) == f(y) ==> x == y
}

pub proof fn lemma_rot_fns_injective<I>()
    ensures injective(rot1_fn::<I>()), injective(rot2_fn::<I>()),
{
    assert forall|x: [I; 3], y: [I; 3]| #![trigger rot1_fn::<I>()(x), rot1_fn::<I>()(y)]
        rot1_fn::<I>()(x) == rot1_fn::<I>()(y) implies x == y by { lemma_rot1_inj(x, y); }
    assert forall|x: [I; 3], y: [I; 3]| #![trigger rot2_fn::<I>()(x), rot2_fn::<I>()(y)]
        rot2_fn::<I>()(x) == rot2_fn::<I>()(y) implies x == y by { lemma_rot2_inj(x, y); }
}

pub proof fn lemma_map_insert<A, B>(s: Set<A>, f: spec_fn(A) -> B, x: A)
    ensures s.insert(x).map(f) =~= s.map(f).insert(f(x)),
{
    assert forall|b: B| s.insert(x).map(f).contains(b) <==> s.map(f).insert(f(x)).contains(b) by {
        if s.insert(x).map(f).contains(b) {
            let a = choose|a: A| s.insert(x).contains(a) && f(a) == b;
            if a == x {} else { assert(s.contains(a)); }
        }
        if s.map(f).insert(f(x)).contains(b) {
            if b == f(x) { assert(s.insert(x).contains(x)); }
            else {
                let a = choose|a: A| s.contains(a) && f(a) == b;
                assert(s.insert(x).contains(a));
            }
        }
    }
}

pub proof fn lemma_map_contains<A, B>(s: Set<A>, f: spec_fn(A) -> B, x: A)
    requires injective(f),
    ensures s.map(f).contains(f(x)) <==> s.contains(x),
{
    if s.map(f).contains(f(x)) {
        let a = choose|a: A| s.contains(a) && f(a) == f(x);
        assert(a == x);
    }
    if s.contains(x) {
        assert(s.map(f).contains(f(x)));
    }
}

pub proof fn lemma_map_remove<A, B>(s: Set<A>, f: spec_fn(A) -> B, x: A)
    requires injective(f),
    ensures s.remove(x).map(f) =~= s.map(f).remove(f(x)),
{
    assert forall|b: B| s.remove(x).map(f).contains(b) <==> s.map(f).remove(f(x)).contains(b) by {
        if s.remove(x).map(f).contains(b) {
            let a = choose|a: A| s.remove(x).contains(a) && f(a) == b;
            assert(s.contains(a));
            assert(a != x);
            if b == f(x) { assert(a == x); }
        }
        if s.map(f).remove(f(x)).contains(b) {
            let a = choose|a: A| s.contains(a) && f(a) == b;
            assert(a != x);
            assert(s.remove(x).contains(a));
        }
    }
}
