#[cfg(kani)]
mod verif_c15_more {
    //! C15, more consumers and drivers (bounded: K = 3 outcomes): MutableDataset::insert_all / remove_all,
    //! the infallible-consumer drivers for_each_item / for_some_item, and the IntoIterator forms of the map /
    //! filter_map adapters (which buffer through a VecDeque).
    use super::verif_c15::{any_out, fmap, mapf, ErrA, ErrB, Out, Sym};
    use super::verif_c15_bulk::K;
    use super::*;
    use crate::dataset::{DResult, Dataset, MdResult, MutableDataset};
    use crate::quad::Spog;
    use crate::term::{GraphName, Term};

    fn id<T: Term>(t: T) -> u8 {
        t.lexical_form().unwrap().as_bytes()[0] - b'0'
    }

    pub struct DStore {
        pub log: [u8; 3],
        pub glog: [u8; 3],
        pub n: usize,
        pub fail_at: u8,
        pub err: u8,
        pub changed: u8,
        pub calls: usize,
    }
    impl Dataset for DStore {
        type Quad<'x> = Spog<K>;
        type Error = ErrB;
        fn quads(&self) -> impl Iterator<Item = DResult<Self, Self::Quad<'_>>> + '_ {
            std::iter::empty()
        }
    }
    impl DStore {
        fn op<TS: Term, TG: Term>(&mut self, s: TS, g: GraphName<TG>) -> Result<bool, ErrB> {
            self.calls += 1;
            if self.n == self.fail_at as usize {
                return Err(ErrB(self.err));
            }
            self.log[self.n] = id(s);
            self.glog[self.n] = g.map(id).unwrap_or(9);
            let c = (self.changed >> self.n) & 1 == 1;
            self.n += 1;
            Ok(c)
        }
    }
    impl MutableDataset for DStore {
        type MutationError = ErrB;
        fn insert<TS: Term, TP: Term, TO: Term, TG: Term>(&mut self, s: TS, _p: TP, _o: TO, g: GraphName<TG>) -> MdResult<Self, bool> {
            self.op(s, g)
        }
        fn remove<TS: Term, TP: Term, TO: Term, TG: Term>(&mut self, s: TS, _p: TP, _o: TO, g: GraphName<TG>) -> MdResult<Self, bool> {
            self.op(s, g)
        }
    }

    pub struct QSrc {
        pub outs: [Out; 3],
        pub pos: usize,
    }
    impl Iterator for QSrc {
        type Item = Result<Spog<K>, ErrA>;
        fn next(&mut self) -> Option<Self::Item> {
            if self.pos >= 3 {
                return None;
            }
            let o = self.outs[self.pos];
            self.pos += 1;
            match o.code {
                0 => {
                    self.pos = 3;
                    None
                }
                // subject = low 2 bits, graph name: named (bits 2..3) when bit 4 is set, else the default graph
                1 => Some(Ok(([K(o.v & 3), K(0), K(0)], if o.v & 16 != 0 { Some(K((o.v >> 2) & 3)) } else { None }))),
                _ => Some(Err(ErrA(o.v))),
            }
        }
    }

    fn check_dataset(remove: bool) {
        let outs = [any_out(), any_out(), any_out()];
        let mut st = DStore { log: [9; 3], glog: [8; 3], n: 0, fail_at: kani::any(), err: kani::any(), changed: kani::any(), calls: 0 };
        let (fail_at, err, changed) = (st.fail_at, st.err, st.changed);
        let src = QSrc { outs, pos: 0 };
        let r = if remove { st.remove_all(src) } else { st.insert_all(src) };
        let mut want = [9u8; 3];
        let mut gwant = [8u8; 3];
        let mut wn = 0usize;
        let mut count = 0usize;
        let mut verdict = 0u8;
        let mut ev = 0u8;
        let mut i = 0;
        while i < 3 {
            let o = outs[i];
            if o.code == 0 {
                break;
            }
            if o.code == 2 {
                verdict = 1;
                ev = o.v;
                break;
            }
            if wn == fail_at as usize {
                verdict = 2;
                ev = err;
                break;
            }
            want[wn] = o.v & 3;
            gwant[wn] = if o.v & 16 != 0 { (o.v >> 2) & 3 } else { 9 };
            if (changed >> wn) & 1 == 1 {
                count += 1;
            }
            wn += 1;
            i += 1;
        }
        assert!(st.n == wn);
        assert!(st.calls == wn + if verdict == 2 { 1 } else { 0 });
        assert!(st.log == want);
        assert!(st.glog == gwant); // each quad reaches the store in its own graph
        match verdict {
            0 => assert!(matches!(r, Ok(c) if c == count)),
            1 => assert!(matches!(r, Err(StreamError::SourceError(ErrA(e))) if e == ev)),
            _ => assert!(matches!(r, Err(StreamError::SinkError(ErrB(e))) if e == ev)),
        }
        kani::cover!(verdict == 0 && wn == 3 && count == 2);
        kani::cover!(verdict == 2 && wn == 1);
    }

    #[kani::proof]
    #[kani::unwind(5)]
    fn c15_dataset_insert_all_k3() {
        check_dataset(false);
    }

    #[kani::proof]
    #[kani::unwind(5)]
    fn c15_dataset_remove_all_k3() {
        check_dataset(true);
    }

    /// for_each_item / for_some_item: infallible consumer; only source faults exist
    #[kani::proof]
    #[kani::unwind(5)]
    fn c15_for_each_item_k3() {
        let outs = [any_out(), any_out(), any_out()];
        let stepwise: bool = kani::any();
        let mut got = [0u8; 3];
        let mut n = 0usize;
        let mut src = Sym::<3> { outs, pos: 0, calls: 0 };
        let r: Result<(), ErrA> = if stepwise {
            let mut res = Ok(());
            let mut steps = 0;
            while steps < 4 {
                match src.for_some_item(|x| {
                    got[n] = x;
                    n += 1;
                }) {
                    Ok(true) => {}
                    Ok(false) => break,
                    Err(e) => {
                        res = Err(e);
                        break;
                    }
                }
                steps += 1;
            }
            res
        } else {
            src.for_each_item(|x| {
                got[n] = x;
                n += 1;
            })
        };
        let mut want = [0u8; 3];
        let mut wn = 0;
        let mut fault: Option<u8> = None;
        let mut i = 0;
        while i < 3 {
            let o = outs[i];
            if o.code == 0 {
                break;
            }
            if o.code == 2 {
                fault = Some(o.v);
                break;
            }
            want[wn] = o.v;
            wn += 1;
            i += 1;
        }
        assert!(n == wn && got == want);
        match fault {
            None => assert!(r.is_ok()),
            Some(v) => assert!(matches!(r, Err(ErrA(e)) if e == v)),
        }
        kani::cover!(fault.is_some() && wn == 2);
        kani::cover!(fault.is_none() && wn == 3);
    }

    /// the IntoIterator form of map_items / filter_map_items yields Ok(mapped item) for each accepted item in
    /// order, then the source error (once) if any, then None
    fn check_into_iter(filter_map: bool) {
        let outs = [any_out(), any_out(), any_out()];
        let (m0, k0): (u8, u8) = (kani::any(), kani::any());
        let src = Sym::<3> { outs, pos: 0, calls: 0 };
        let mut got = [0u8; 3];
        let mut n = 0usize;
        let mut err: Option<u8> = None;
        let mut after_err = 0u8;
        let mut pulls = 0;
        macro_rules! drain {
            ($it:expr) => {{
                let mut it = $it;
                while pulls < 5 {
                    match it.next() {
                        None => break,
                        Some(Ok(x)) => {
                            if err.is_some() {
                                after_err += 1;
                            } else {
                                got[n] = x;
                                n += 1;
                            }
                        }
                        Some(Err(ErrA(e))) => {
                            if err.is_some() {
                                after_err += 1;
                            }
                            err = Some(e);
                        }
                    }
                    pulls += 1;
                }
            }};
        }
        if filter_map {
            drain!(src.filter_map_items(move |x| fmap(m0, k0, x)).into_iter());
        } else {
            drain!(src.map_items(move |x| mapf(k0, x)).into_iter());
        }
        let mut want = [0u8; 3];
        let mut wn = 0;
        let mut fault: Option<u8> = None;
        let mut i = 0;
        while i < 3 {
            let o = outs[i];
            if o.code == 0 {
                break;
            }
            if o.code == 2 {
                fault = Some(o.v);
                break;
            }
            let y = if filter_map { fmap(m0, k0, o.v) } else { Some(mapf(k0, o.v)) };
            if let Some(y) = y {
                want[wn] = y;
                wn += 1;
            }
            i += 1;
        }
        assert!(n == wn && got == want);
        assert!(err == fault);
        assert!(after_err == 0); // nothing is yielded after the error
        kani::cover!(fault.is_some() && wn == 2);
    }

    #[kani::proof]
    #[kani::unwind(7)]
    fn c15_map_into_iter_k3() {
        check_into_iter(false);
    }

    #[kani::proof]
    #[kani::unwind(7)]
    fn c15_filter_map_into_iter_k3() {
        check_into_iter(true);
    }

    /// a source that may hand SEVERAL items to the consumer per try_for_some_item call (as a statement-wise parser
    /// does): outcomes are consumed in batches of `batch` (1..=3); within a batch it stops at the first consumer
    /// error, at its own error, or at the end of the stream
    pub struct Batch {
        pub outs: [Out; 3],
        pub pos: usize,
        pub batch: usize,
    }
    impl Source for Batch {
        type Item<'x> = u8;
        type Error = ErrA;
        fn try_for_some_item<E, F>(&mut self, mut f: F) -> StreamResult<bool, ErrA, E>
        where
            E: std::error::Error + Send + Sync + 'static,
            F: FnMut(u8) -> Result<(), E>,
        {
            if self.pos >= 3 || self.outs[self.pos].code == 0 {
                self.pos = 3;
                return Ok(false);
            }
            let mut k = 0;
            while k < self.batch && self.pos < 3 {
                let o = self.outs[self.pos];
                if o.code == 0 {
                    self.pos = 3;
                    break;
                }
                self.pos += 1;
                if o.code == 2 {
                    return Err(StreamError::SourceError(ErrA(o.v)));
                }
                f(o.v).map_err(StreamError::SinkError)?;
                k += 1;
            }
            Ok(true)
        }
    }

    fn check_into_iter_batch(filter_map: bool) {
        let outs = [any_out(), any_out(), any_out()];
        let batch: usize = kani::any();
        kani::assume(1 <= batch && batch <= 3);
        let (m0, k0): (u8, u8) = (kani::any(), kani::any());
        let src = Batch { outs, pos: 0, batch };
        let mut got = [0u8; 3];
        let mut n = 0usize;
        let mut err: Option<u8> = None;
        let mut after_err = 0u8;
        let mut pulls = 0;
        macro_rules! drain {
            ($it:expr) => {{
                let mut it = $it;
                while pulls < 5 {
                    match it.next() {
                        None => break,
                        Some(Ok(x)) => {
                            if err.is_some() {
                                after_err += 1;
                            } else {
                                got[n] = x;
                                n += 1;
                            }
                        }
                        Some(Err(ErrA(e))) => {
                            if err.is_some() {
                                after_err += 1;
                            }
                            err = Some(e);
                        }
                    }
                    pulls += 1;
                }
            }};
        }
        if filter_map {
            drain!(src.filter_map_items(move |x| fmap(m0, k0, x)).into_iter());
        } else {
            drain!(src.map_items(move |x| mapf(k0, x)).into_iter());
        }
        let mut want = [0u8; 3];
        let mut wn = 0;
        let mut fault: Option<u8> = None;
        let mut i = 0;
        while i < 3 {
            let o = outs[i];
            if o.code == 0 {
                break;
            }
            if o.code == 2 {
                fault = Some(o.v);
                break;
            }
            let y = if filter_map { fmap(m0, k0, o.v) } else { Some(mapf(k0, o.v)) };
            if let Some(y) = y {
                want[wn] = y;
                wn += 1;
            }
            i += 1;
        }
        // every accepted item BEFORE the fault is yielded, in order, then the fault, then nothing
        assert!(n == wn && got == want);
        assert!(err == fault);
        assert!(after_err == 0);
        kani::cover!(fault.is_some() && wn == 2 && batch == 3);
    }

    #[kani::proof]
    #[kani::unwind(7)]
    fn c15_map_into_iter_batch_k3() {
        check_into_iter_batch(false);
    }

    #[kani::proof]
    #[kani::unwind(7)]
    fn c15_filter_map_into_iter_batch_k3() {
        check_into_iter_batch(true);
    }

    /// whole-stream driving of a batching source through filter+map: prefix and blame as for one-at-a-time sources
    #[kani::proof]
    #[kani::unwind(7)]
    fn c15_stream_batch_chain_k3() {
        let outs = [any_out(), any_out(), any_out()];
        let batch: usize = kani::any();
        kani::assume(1 <= batch && batch <= 3);
        let (m0, k0): (u8, u8) = (kani::any(), kani::any());
        let fail_at: u8 = kani::any();
        let sink_err: u8 = kani::any();
        let mut got = [0u8; 3];
        let mut n = 0usize;
        let mut calls = 0usize;
        let r = Batch { outs, pos: 0, batch }
            .filter_items(move |x| super::verif_c15::pred(m0, *x))
            .map_items(move |x| mapf(k0, x))
            .try_for_each_item(|x| -> Result<(), ErrB> {
                calls += 1;
                if n == fail_at as usize {
                    return Err(ErrB(sink_err));
                }
                got[n] = x;
                n += 1;
                Ok(())
            });
        let mut want = [0u8; 3];
        let mut wn = 0usize;
        let mut verdict = 0u8;
        let mut ev = 0u8;
        let mut i = 0;
        while i < 3 {
            let o = outs[i];
            if o.code == 0 {
                break;
            }
            if o.code == 2 {
                verdict = 1;
                ev = o.v;
                break;
            }
            if super::verif_c15::pred(m0, o.v) {
                if wn == fail_at as usize {
                    verdict = 2;
                    ev = sink_err;
                    break;
                }
                want[wn] = mapf(k0, o.v);
                wn += 1;
            }
            i += 1;
        }
        assert!(n == wn && got == want);
        assert!(calls == wn + if verdict == 2 { 1 } else { 0 });
        match verdict {
            0 => assert!(matches!(r, Ok(()))),
            1 => assert!(matches!(r, Err(StreamError::SourceError(ErrA(e))) if e == ev)),
            _ => assert!(matches!(r, Err(StreamError::SinkError(ErrB(e))) if e == ev)),
        }
    }

    /// smallest instance showing the buffering of the IntoIterator form of filter_map_items with a batching
    /// source: one batch of two outcomes [Ok(x), Err(e)]: the iterator must yield Ok(f(x)) (if accepted), then Err(e)
    #[kani::proof]
    #[kani::unwind(5)]
    fn c15_filter_map_into_iter_batch2() {
        let x: u8 = kani::any();
        let e: u8 = kani::any();
        let outs = [Out { code: 1, v: x }, Out { code: 2, v: e }, Out { code: 0, v: 0 }];
        let (m0, k0): (u8, u8) = (kani::any(), kani::any());
        let mut it = Batch { outs, pos: 0, batch: 2 }.filter_map_items(move |x| fmap(m0, k0, x)).into_iter();
        match fmap(m0, k0, x) {
            Some(y) => {
                assert!(matches!(it.next(), Some(Ok(v)) if v == y));
                assert!(matches!(it.next(), Some(Err(ErrA(v))) if v == e));
            }
            None => {
                assert!(matches!(it.next(), Some(Err(ErrA(v))) if v == e));
            }
        }
    }
}
