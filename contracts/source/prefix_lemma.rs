// C15, whole-stream statement derived from the STEP CONTRACT that Kani discharges on the real code.
// This file contains no extracted code: it is a lemma over the contract's specification functions
// (the induction "every step obeys the step contract  ==>  the driver loop consumes exactly the accepted prefix").
use vstd::prelude::*;
verus! {

pub enum Ev { End, Item(int), SrcErr(int) }

pub enum Outcome { Done, SourceError(int), SinkError(int) }

// result of one try_for_some_item step, as specified by the step contract:
//   End        -> Ok(false), consumer not called
//   SrcErr(e)  -> Err(SourceError(e)), consumer not called
//   Item(x)    -> filtered out: Ok(true), consumer not called
//                 accepted as y: consumer called exactly once with y; Ok(true) or Err(SinkError(e'))
pub enum Step { Continue(Seq<int>), Stop(Seq<int>, Outcome) }

pub open spec fn step(consumed: Seq<int>, ev: Ev, accept: spec_fn(int) -> Option<int>, sink: spec_fn(int, int) -> Option<int>) -> Step {
    match ev {
        Ev::End => Step::Stop(consumed, Outcome::Done),
        Ev::SrcErr(e) => Step::Stop(consumed, Outcome::SourceError(e)),
        Ev::Item(x) => match accept(x) {
            None => Step::Continue(consumed),
            Some(y) => match sink(consumed.len() as int, y) {
                Some(e) => Step::Stop(consumed, Outcome::SinkError(e)),
                None => Step::Continue(consumed.push(y)),
            },
        },
    }
}

// the driver `while self.try_for_some_item(&mut f)? {}` over a stream of events (an exhausted stream keeps answering End)
pub open spec fn drive(evs: Seq<Ev>, consumed: Seq<int>, accept: spec_fn(int) -> Option<int>, sink: spec_fn(int, int) -> Option<int>) -> (Seq<int>, Outcome)
    decreases evs.len(),
{
    if evs.len() == 0 { (consumed, Outcome::Done) }
    else {
        match step(consumed, evs[0], accept, sink) {
            Step::Stop(c, o) => (c, o),
            Step::Continue(c) => drive(evs.subrange(1, evs.len() as int), c, accept, sink),
        }
    }
}

// what the property promises, stated without the loop: the accepted images of the items of a fault-free prefix
pub open spec fn accepted(evs: Seq<Ev>, accept: spec_fn(int) -> Option<int>) -> Seq<int>
    decreases evs.len(),
{
    if evs.len() == 0 { Seq::empty() }
    else {
        let rest = accepted(evs.subrange(1, evs.len() as int), accept);
        match evs[0] {
            Ev::Item(x) => match accept(x) { Some(y) => seq![y] + rest, None => rest },
            _ => rest,
        }
    }
}

// evs[0..k] is fault free when started with n0 items already consumed
pub open spec fn fault_free(evs: Seq<Ev>, k: int, n0: int, accept: spec_fn(int) -> Option<int>, sink: spec_fn(int, int) -> Option<int>) -> bool
    decreases k,
{
    if k <= 0 { true }
    else if evs.len() == 0 { false }
    else {
        match evs[0] {
            Ev::Item(x) => match accept(x) {
                None => fault_free(evs.subrange(1, evs.len() as int), k - 1, n0, accept, sink),
                Some(y) => sink(n0, y) is None && fault_free(evs.subrange(1, evs.len() as int), k - 1, n0 + 1, accept, sink),
            },
            _ => false,
        }
    }
}

pub open spec fn fault_at(evs: Seq<Ev>, k: int, n: int, accept: spec_fn(int) -> Option<int>, sink: spec_fn(int, int) -> Option<int>) -> Outcome {
    if k >= evs.len() { Outcome::Done }
    else {
        match evs[k] {
            Ev::End => Outcome::Done,
            Ev::SrcErr(e) => Outcome::SourceError(e),
            Ev::Item(x) => match accept(x) {
                Some(y) => match sink(n, y) { Some(e) => Outcome::SinkError(e), None => Outcome::Done },
                None => Outcome::Done,
            },
        }
    }
}

pub open spec fn is_fault(evs: Seq<Ev>, k: int, n: int, accept: spec_fn(int) -> Option<int>, sink: spec_fn(int, int) -> Option<int>) -> bool {
    k == evs.len() || match evs[k] {
        Ev::End => true,
        Ev::SrcErr(_) => true,
        Ev::Item(x) => match accept(x) { Some(y) => sink(n, y) is Some, None => false },
    }
}

// MAIN LEMMA: if evs[0..k] is fault free and position k is the first fault (or the end of the stream), the driver
// has consumed exactly the accepted items before k, in source order, each once, and reports the k-th fault on the
// right side with its original value.
pub proof fn lemma_prefix(evs: Seq<Ev>, k: int, consumed: Seq<int>, accept: spec_fn(int) -> Option<int>, sink: spec_fn(int, int) -> Option<int>)
    requires
        0 <= k <= evs.len(),
        fault_free(evs, k, consumed.len() as int, accept, sink),
        is_fault(evs, k, (consumed + accepted(evs.subrange(0, k), accept)).len() as int, accept, sink),
    ensures
        drive(evs, consumed, accept, sink).0 == consumed + accepted(evs.subrange(0, k), accept),
        drive(evs, consumed, accept, sink).1 == fault_at(evs, k, (consumed + accepted(evs.subrange(0, k), accept)).len() as int, accept, sink),
    decreases k,
{
    if k == 0 {
        assert(evs.subrange(0, 0) =~= Seq::<Ev>::empty());
        assert(accepted(evs.subrange(0, 0), accept) =~= Seq::<int>::empty());
        assert(consumed + Seq::<int>::empty() =~= consumed);
        if evs.len() == 0 {
        } else {
            // position 0 is the fault: one step stops the driver
            match evs[0] {
                Ev::End => {}
                Ev::SrcErr(e) => {}
                Ev::Item(x) => {
                    assert(accept(x) is Some);
                    assert(sink(consumed.len() as int, accept(x)->Some_0) is Some);
                }
            }
        }
    } else {
        let rest = evs.subrange(1, evs.len() as int);
        let pre = evs.subrange(0, k);
        assert(pre[0] == evs[0]);
        assert(pre.subrange(1, pre.len() as int) =~= rest.subrange(0, k - 1));
        match evs[0] {
            Ev::Item(x) => {
                match accept(x) {
                    None => {
                        assert(accepted(pre, accept) == accepted(rest.subrange(0, k - 1), accept));
                        assert(forall|j: int| 0 <= j < rest.len() ==> rest[j] == evs[j + 1]);
                        if k - 1 < rest.len() { assert(rest[k - 1] == evs[k]); }
                        lemma_prefix(rest, k - 1, consumed, accept, sink);
                    }
                    Some(y) => {
                        let c2 = consumed.push(y);
                        assert(accepted(pre, accept) == seq![y] + accepted(rest.subrange(0, k - 1), accept));
                        assert(c2 + accepted(rest.subrange(0, k - 1), accept) =~= consumed + accepted(pre, accept));
                        if k - 1 < rest.len() { assert(rest[k - 1] == evs[k]); }
                        lemma_prefix(rest, k - 1, c2, accept, sink);
                    }
                }
            }
            _ => { assert(false); }
        }
    }
}

// vacuity guard: the hypotheses of lemma_prefix are satisfiable and the conclusion is the expected one on a
// concrete stream  [Item(1), Item(2) (filtered out), SrcErr(7)]  with an accepting consumer
pub proof fn witness_lemma_prefix()
{
    let accept = |x: int| if x == 2 { None::<int> } else { Some(x + 10) };
    let sink = |n: int, y: int| None::<int>;
    let evs = seq![Ev::Item(1), Ev::Item(2), Ev::SrcErr(7)];
    let e1 = evs.subrange(1, 3);
    let e2 = e1.subrange(1, 2);
    assert(e1 =~= seq![Ev::Item(2), Ev::SrcErr(7)]);
    assert(e2 =~= seq![Ev::SrcErr(7)]);
    reveal_with_fuel(fault_free, 4);
    reveal_with_fuel(accepted, 4);
    assert(e2.subrange(1, 1) =~= Seq::<Ev>::empty());
    assert(fault_free(e2, 0, 1, accept, sink));
    assert(fault_free(e1, 1, 1, accept, sink));
    assert(fault_free(evs, 2, 0, accept, sink));
    let pre = evs.subrange(0, 2);
    assert(pre =~= seq![Ev::Item(1), Ev::Item(2)]);
    let p1 = pre.subrange(1, 2);
    assert(p1 =~= seq![Ev::Item(2)]);
    assert(p1.subrange(1, 1) =~= Seq::<Ev>::empty());
    assert(accepted(p1.subrange(1, 1), accept) =~= Seq::<int>::empty());
    assert(accepted(p1, accept) =~= Seq::<int>::empty());
    assert(accepted(pre, accept) =~= seq![11int]);
    lemma_prefix(evs, 2, Seq::<int>::empty(), accept, sink);
    assert(Seq::<int>::empty() + seq![11int] =~= seq![11int]);
    assert(drive(evs, Seq::<int>::empty(), accept, sink).0 == seq![11int]);
    assert(drive(evs, Seq::<int>::empty(), accept, sink).1 == Outcome::SourceError(7));
}

} // verus!
fn main() {}
