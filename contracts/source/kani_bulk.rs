#[cfg(kani)]
pub(crate) mod verif_c15_bulk {
    //! C15: insert_all / remove_all (MutableGraph default methods) driven by a faulty source into a store whose
    //! insert/remove may fail ("term index full"): exactly the prefix before the fault reaches the store, the
    //! count is the number of effective changes, the error blames the right side and carries the value.
    use super::verif_c15::{any_out, ErrA, ErrB, Out};
    use super::*;
    use crate::graph::{GResult, Graph, MgResult, MutableGraph};
    use crate::term::{Term, TermKind};
    use mownstr::MownStr;

    const LEX: [&str; 4] = ["0", "1", "2", "3"];

    #[derive(Debug, Clone, Copy)]
    pub struct K(pub u8);
    impl Term for K {
        type BorrowTerm<'x> = Self;
        fn kind(&self) -> TermKind {
            TermKind::Literal
        }
        fn lexical_form(&self) -> Option<MownStr> {
            Some(MownStr::from_ref(LEX[(self.0 & 3) as usize]))
        }
        fn borrow_term(&self) -> Self {
            *self
        }
    }
    fn id<T: Term>(t: T) -> u8 {
        t.lexical_form().unwrap().as_bytes()[0] - b'0'
    }

    /// A store that logs what reaches it; the i-th mutation fails if i == fail_at, and reports "changed" per bit of `changed`.
    pub struct Store {
        pub log: [u8; 3],
        pub n: usize,
        pub fail_at: u8,
        pub err: u8,
        pub changed: u8,
        pub calls: usize,
    }
    impl Graph for Store {
        type Triple<'x> = [K; 3];
        type Error = ErrB;
        fn triples(&self) -> impl Iterator<Item = GResult<Self, Self::Triple<'_>>> + '_ {
            std::iter::empty()
        }
    }
    impl Store {
        fn op<TS: Term>(&mut self, s: TS) -> Result<bool, ErrB> {
            self.calls += 1;
            if self.n == self.fail_at as usize {
                return Err(ErrB(self.err));
            }
            self.log[self.n] = id(s);
            let c = (self.changed >> self.n) & 1 == 1;
            self.n += 1;
            Ok(c)
        }
    }
    impl MutableGraph for Store {
        type MutationError = ErrB;
        fn insert<TS: Term, TP: Term, TO: Term>(&mut self, s: TS, _p: TP, _o: TO) -> MgResult<Self, bool> {
            self.op(s)
        }
        fn remove<TS: Term, TP: Term, TO: Term>(&mut self, s: TS, _p: TP, _o: TO) -> MgResult<Self, bool> {
            self.op(s)
        }
    }

    pub struct Src {
        pub outs: [Out; 3],
        pub pos: usize,
    }
    impl Iterator for Src {
        type Item = Result<[K; 3], ErrA>;
        fn next(&mut self) -> Option<Self::Item> {
            if self.pos >= 3 {
                return None;
            }
            let o = self.outs[self.pos];
            self.pos += 1;
            match o.code {
                0 => {
                    self.pos = 3;
                    None
                }
                1 => Some(Ok([K(o.v & 3), K(0), K(0)])),
                _ => Some(Err(ErrA(o.v))),
            }
        }
    }

    fn check(remove: bool) {
        let outs = [any_out(), any_out(), any_out()];
        let mut st = Store { log: [9; 3], n: 0, fail_at: kani::any(), err: kani::any(), changed: kani::any(), calls: 0 };
        let (fail_at, err, changed) = (st.fail_at, st.err, st.changed);
        let src = Src { outs, pos: 0 };
        let r = if remove { st.remove_all(src) } else { st.insert_all(src) };
        // reference walk
        let mut want = [9u8; 3];
        let mut wn = 0usize;
        let mut count = 0usize;
        let mut verdict = 0u8;
        let mut ev = 0u8;
        let mut i = 0;
        while i < 3 {
            let o = outs[i];
            if o.code == 0 {
                break;
            }
            if o.code == 2 {
                verdict = 1;
                ev = o.v;
                break;
            }
            if wn == fail_at as usize {
                verdict = 2;
                ev = err;
                break;
            }
            want[wn] = o.v & 3;
            if (changed >> wn) & 1 == 1 {
                count += 1;
            }
            wn += 1;
            i += 1;
        }
        assert!(st.n == wn);
        assert!(st.calls == wn + if verdict == 2 { 1 } else { 0 });
        assert!(st.log == want);
        match verdict {
            0 => assert!(matches!(r, Ok(c) if c == count)),
            1 => assert!(matches!(r, Err(StreamError::SourceError(ErrA(e))) if e == ev)),
            _ => assert!(matches!(r, Err(StreamError::SinkError(ErrB(e))) if e == ev)),
        }
        kani::cover!(verdict == 0 && wn == 3 && count == 2);
        kani::cover!(verdict == 1 && wn == 1);
        kani::cover!(verdict == 2 && wn == 2);
    }

    #[kani::proof]
    #[kani::unwind(5)]
    fn c15_insert_all_k3() {
        check(false);
    }

    #[kani::proof]
    #[kani::unwind(5)]
    fn c15_remove_all_k3() {
        check(true);
    }
}
