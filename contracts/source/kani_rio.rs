#[cfg(kani)]
mod verif_c15 {
    //! C15 step contract of the Rio adapters (StrictRioTripleSource / StrictRioQuadSource / GeneralizedRioSource):
    //! a stub parser whose parse_step calls the callback 0, 1 or 2 times and then returns Ok / its own error.
    use super::*;
    use rio_api::model::{NamedNode, Quad, Subject, Term as RioTerm, Triple};
    use rio_api::model::{GeneralizedQuad, GeneralizedTerm};
    use sophia_api::source::{Source, StreamError, StreamResult};

    #[derive(Debug, Clone, Copy, PartialEq, Eq)]
    pub struct PErr(pub u8);
    impl std::fmt::Display for PErr {
        fn fmt(&self, _f: &mut std::fmt::Formatter<'_>) -> std::fmt::Result {
            Ok(())
        }
    }
    impl std::error::Error for PErr {}
    #[derive(Debug, Clone, Copy, PartialEq, Eq)]
    pub struct SErr(pub u8);
    impl std::fmt::Display for SErr {
        fn fmt(&self, _f: &mut std::fmt::Formatter<'_>) -> std::fmt::Result {
            Ok(())
        }
    }
    impl std::error::Error for SErr {}

    const IRIS: [&str; 2] = ["a", "b"];

    pub struct Stub {
        pub end: bool,
        pub n_items: u8,      // how many statements this step produces (0..=2)
        pub fail: Option<u8>, // parser's own error after the items
        pub steps: u8,
    }
    fn any_stub() -> Stub {
        let n_items: u8 = kani::any();
        kani::assume(n_items <= 2);
        Stub { end: kani::any(), n_items, fail: kani::any(), steps: 0 }
    }
    impl rio_api::parser::TriplesParser for Stub {
        type Error = PErr;
        fn parse_step<E: From<PErr>>(&mut self, on: &mut impl FnMut(Triple<'_>) -> Result<(), E>) -> Result<(), E> {
            self.steps += 1;
            let mut i = 0;
            while i < self.n_items {
                let n = NamedNode { iri: IRIS[i as usize] };
                on(Triple { subject: Subject::NamedNode(n), predicate: n, object: RioTerm::NamedNode(n) })?;
                i += 1;
            }
            match self.fail {
                Some(v) => Err(PErr(v).into()),
                None => Ok(()),
            }
        }
        fn is_end(&self) -> bool {
            self.end
        }
    }
    impl rio_api::parser::QuadsParser for Stub {
        type Error = PErr;
        fn parse_step<E: From<PErr>>(&mut self, on: &mut impl FnMut(Quad<'_>) -> Result<(), E>) -> Result<(), E> {
            self.steps += 1;
            let mut i = 0;
            while i < self.n_items {
                let n = NamedNode { iri: IRIS[i as usize] };
                on(Quad { subject: Subject::NamedNode(n), predicate: n, object: RioTerm::NamedNode(n), graph_name: None })?;
                i += 1;
            }
            match self.fail {
                Some(v) => Err(PErr(v).into()),
                None => Ok(()),
            }
        }
        fn is_end(&self) -> bool {
            self.end
        }
    }
    impl rio_api::parser::GeneralizedQuadsParser for Stub {
        type Error = PErr;
        fn parse_step<E: From<PErr>>(&mut self, on: &mut impl FnMut(GeneralizedQuad<'_>) -> Result<(), E>) -> Result<(), E> {
            self.steps += 1;
            let mut i = 0;
            while i < self.n_items {
                let n = GeneralizedTerm::NamedNode(NamedNode { iri: IRIS[i as usize] });
                on(GeneralizedQuad { subject: n, predicate: n, object: n, graph_name: None })?;
                i += 1;
            }
            match self.fail {
                Some(v) => Err(PErr(v).into()),
                None => Ok(()),
            }
        }
        fn is_end(&self) -> bool {
            self.end
        }
    }

    /// shared checker: `seen` = ids of the statements the consumer saw, in order
    fn verdict(end: bool, n_items: u8, fail: Option<u8>, sink_fail_at: u8, sink_err: u8, steps: u8, seen: [u8; 2], n_seen: u8, calls: u8,
               r: StreamResult<bool, PErr, SErr>) {
        if end {
            assert!(steps == 0 && n_seen == 0 && calls == 0);
            assert!(matches!(r, Ok(false)));
            return;
        }
        assert!(steps == 1);
        // the consumer fails on its sink_fail_at-th item if it gets that far
        let delivered = if sink_fail_at < n_items { sink_fail_at } else { n_items };
        assert!(n_seen == delivered);
        // nothing is handed to the consumer after it has failed
        assert!(calls == delivered + if sink_fail_at < n_items { 1 } else { 0 });
        if delivered >= 1 { assert!(seen[0] == 0); }
        if delivered >= 2 { assert!(seen[1] == 1); }
        if sink_fail_at < n_items {
            assert!(matches!(r, Err(StreamError::SinkError(SErr(e))) if e == sink_err));
        } else if let Some(v) = fail {
            assert!(matches!(r, Err(StreamError::SourceError(PErr(e))) if e == v));
        } else {
            assert!(matches!(r, Ok(true)));
        }
        kani::cover!(sink_fail_at == 1 && n_items == 2);
        kani::cover!(fail.is_some() && n_items == 2 && sink_fail_at >= 2);
    }

    fn id_of(iri: &str) -> u8 {
        if iri.as_bytes()[0] == b'a' { 0 } else { 1 }
    }

    #[kani::proof]
    #[kani::unwind(4)]
    fn c15_rio_triples_step() {
        let stub = any_stub();
        let (end, n_items, fail) = (stub.end, stub.n_items, stub.fail);
        let sink_fail_at: u8 = kani::any();
        let sink_err: u8 = kani::any();
        let mut seen = [9u8; 2];
        let mut n_seen = 0u8;
        let mut calls = 0u8;
        let mut src = StrictRioTripleSource(stub);
        let r = src.try_for_some_item(|t| {
            calls += 1;
            if n_seen == sink_fail_at {
                return Err(SErr(sink_err));
            }
            seen[n_seen as usize] = id_of(t.0.predicate.iri);
            n_seen += 1;
            Ok(())
        });
        verdict(end, n_items, fail, sink_fail_at, sink_err, src.0.steps, seen, n_seen, calls, r);
    }

    #[kani::proof]
    #[kani::unwind(4)]
    fn c15_rio_quads_step() {
        let stub = any_stub();
        let (end, n_items, fail) = (stub.end, stub.n_items, stub.fail);
        let sink_fail_at: u8 = kani::any();
        let sink_err: u8 = kani::any();
        let mut seen = [9u8; 2];
        let mut n_seen = 0u8;
        let mut calls = 0u8;
        let mut src = StrictRioQuadSource(stub);
        let r = src.try_for_some_item(|t| {
            calls += 1;
            if n_seen == sink_fail_at {
                return Err(SErr(sink_err));
            }
            seen[n_seen as usize] = id_of(t.0.predicate.iri);
            n_seen += 1;
            Ok(())
        });
        verdict(end, n_items, fail, sink_fail_at, sink_err, src.0.steps, seen, n_seen, calls, r);
    }

    #[kani::proof]
    #[kani::unwind(4)]
    fn c15_rio_generalized_step() {
        let stub = any_stub();
        let (end, n_items, fail) = (stub.end, stub.n_items, stub.fail);
        let sink_fail_at: u8 = kani::any();
        let sink_err: u8 = kani::any();
        let mut seen = [9u8; 2];
        let mut n_seen = 0u8;
        let mut calls = 0u8;
        let mut src = GeneralizedRioSource(stub);
        let r = src.try_for_some_item(|t| {
            calls += 1;
            if n_seen == sink_fail_at {
                return Err(SErr(sink_err));
            }
            seen[n_seen as usize] = match t.0.predicate { GeneralizedTerm::NamedNode(n) => id_of(n.iri), _ => 7 };
            n_seen += 1;
            Ok(())
        });
        verdict(end, n_items, fail, sink_fail_at, sink_err, src.0.steps, seen, n_seen, calls, r);
    }
}
