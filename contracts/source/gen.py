"""Generates the C15 Kani harnesses (appended to api/src/source.rs under cfg(kani))."""
import itertools

HEADER = r'''
#[cfg(kani)]
mod verif_c15 {
    //! C15 step contract of Source::try_for_some_item for the Iterator source and every adapter chain of
    //! depth <= 3, and the whole-stream prefix property for streams of <= 3 outcomes.
    use super::*;

    #[derive(Debug, Clone, Copy, PartialEq, Eq)]
    pub struct ErrA(pub u8);
    impl std::fmt::Display for ErrA {
        fn fmt(&self, _f: &mut std::fmt::Formatter<'_>) -> std::fmt::Result {
            Ok(())
        }
    }
    impl std::error::Error for ErrA {}
    #[derive(Debug, Clone, Copy, PartialEq, Eq)]
    pub struct ErrB(pub u8);
    impl std::fmt::Display for ErrB {
        fn fmt(&self, _f: &mut std::fmt::Formatter<'_>) -> std::fmt::Result {
            Ok(())
        }
    }
    impl std::error::Error for ErrB {}

    /// outcome codes: 0 = end of stream, 1 = Ok(v), 2 = Err(ErrA(v))
    #[derive(Clone, Copy)]
    pub struct Out {
        pub code: u8,
        pub v: u8,
    }
    pub fn any_out() -> Out {
        let code: u8 = kani::any();
        kani::assume(code <= 2);
        Out { code, v: kani::any() }
    }

    /// An iterator replaying K pre-drawn symbolic outcomes, counting the calls to next().
    pub struct Sym<const K: usize> {
        pub outs: [Out; K],
        pub pos: usize,
        pub calls: usize,
    }
    impl<const K: usize> Iterator for Sym<K> {
        type Item = Result<u8, ErrA>;
        fn next(&mut self) -> Option<Self::Item> {
            self.calls += 1;
            if self.pos >= K {
                return None;
            }
            let o = self.outs[self.pos];
            self.pos += 1;
            match o.code {
                0 => {
                    self.pos = K;
                    None
                }
                1 => Some(Ok(o.v)),
                _ => Some(Err(ErrA(o.v))),
            }
        }
    }

    // symbolic adapter parameters: predicate = (x & mask != 0), map = x ^ k
    pub fn pred(mask: u8, x: u8) -> bool {
        x & mask != 0
    }
    pub fn mapf(k: u8, x: u8) -> u8 {
        x ^ k
    }
    pub fn fmap(mask: u8, k: u8, x: u8) -> Option<u8> {
        if x & mask != 0 { Some(x ^ k) } else { None }
    }

    /// The step contract, checked for one call of try_for_some_item on `s`; `expect(x)` is what the chain is
    /// specified to hand to the consumer for source item x (None = filtered out).
    pub fn check_step<S, X>(mut s: S, o: Out, expect: X)
    where
        S: for<'x> Source<Item<'x> = u8, Error = ErrA>,
        X: Fn(u8) -> Option<u8>,
    {
        let sink_fails: bool = kani::any();
        let sink_err: u8 = kani::any();
        let mut seen: u8 = 0;
        let mut times: u8 = 0;
        let r = s.try_for_some_item(|x| {
            times += 1;
            seen = x;
            if sink_fails { Err(ErrB(sink_err)) } else { Ok(()) }
        });
        match o.code {
            0 => {
                assert!(times == 0);
                assert!(matches!(r, Ok(false)));
            }
            2 => {
                assert!(times == 0);
                assert!(matches!(r, Err(StreamError::SourceError(ErrA(e))) if e == o.v));
            }
            _ => match expect(o.v) {
                None => {
                    assert!(times == 0);
                    assert!(matches!(r, Ok(true)));
                }
                Some(y) => {
                    assert!(times == 1);
                    assert!(seen == y);
                    if sink_fails {
                        assert!(matches!(r, Err(StreamError::SinkError(ErrB(e))) if e == sink_err));
                    } else {
                        assert!(matches!(r, Ok(true)));
                    }
                }
            },
        }
        kani::cover!(o.code == 1 && times == 1 && sink_fails);
        kani::cover!(o.code == 2);
        kani::cover!(o.code == 0);
    }
'''

FOOTER = "}\n"

ADAPTERS = {
    "f": (".filter_items(move |x| pred(m{i}, *x))", "match v {{ Some(x) if pred(m{i}, x) => Some(x), _ => None }}"),
    "m": (".map_items(move |x| mapf(k{i}, x))", "v.map(|x| mapf(k{i}, x))"),
    "x": (".filter_map_items(move |x| fmap(m{i}, k{i}, x))", "match v {{ Some(x) => fmap(m{i}, k{i}, x), None => None }}"),
}


def chains(maxdepth=3):
    out = [""]
    for d in range(1, maxdepth + 1):
        out += ["".join(c) for c in itertools.product("fmx", repeat=d)]
    return out


def step_harness(chain):
    name = "c15_step_" + (chain or "iter")
    lets = "".join("        let m%d: u8 = kani::any();\n        let k%d: u8 = kani::any();\n" % (i, i) for i in range(len(chain)))
    build = "Sym::<1> { outs: [o], pos: 0, calls: 0 }" + "".join(ADAPTERS[c][0].format(i=i) for i, c in enumerate(chain))
    exp = "            let v = Some(x);\n" + "".join("            let v = %s;\n" % ADAPTERS[c][1].format(i=i) for i, c in enumerate(chain)) + "            v\n"
    return name, """
    #[kani::proof]
    fn %s() {
        let o = any_out();
%s        let s = %s;
        check_step(s, o, move |x: u8| {
%s        });
    }
""" % (name, lets, build, exp)


STREAM = r'''
    /// Whole-stream driving (bounded: K = 3 outcomes): the consumer sees exactly the accepted items before the
    /// first fault, once each and in source order; the error names the failing side and carries its value.
    fn check_stream(with_chain: bool) {
        let outs = [any_out(), any_out(), any_out()];
        let m0: u8 = kani::any();
        let k0: u8 = kani::any();
        let fail_at: u8 = kani::any(); // the consumer fails on its fail_at-th item (0-based); >= 3: never
        let sink_err: u8 = kani::any();
        let mut got: [u8; 3] = [0; 3];
        let mut n: usize = 0;
        let mut calls: usize = 0;
        let sink = |x: u8| -> Result<(), ErrB> {
            calls += 1;
            if n == fail_at as usize {
                return Err(ErrB(sink_err));
            }
            got[n] = x;
            n += 1;
            Ok(())
        };
        let src = Sym::<3> { outs, pos: 0, calls: 0 };
        let r = if with_chain {
            src.filter_items(move |x| pred(m0, *x)).map_items(move |x| mapf(k0, x)).try_for_each_item(sink)
        } else {
            { let mut src = src; src.try_for_each_item(sink) }
        };
        // reference: walk the outcomes
        let mut want: [u8; 3] = [0; 3];
        let mut wn: usize = 0;
        let mut verdict: u8 = 0; // 0 ok, 1 source error, 2 sink error
        let mut ev: u8 = 0;
        let mut i = 0;
        while i < 3 {
            let o = outs[i];
            if o.code == 0 {
                break;
            }
            if o.code == 2 {
                verdict = 1;
                ev = o.v;
                break;
            }
            let item = if with_chain { if pred(m0, o.v) { Some(mapf(k0, o.v)) } else { None } } else { Some(o.v) };
            if let Some(y) = item {
                if wn == fail_at as usize {
                    verdict = 2;
                    ev = sink_err;
                    break;
                }
                want[wn] = y;
                wn += 1;
            }
            i += 1;
        }
        assert!(n == wn);
        assert!(got == want);
        // nothing is handed to the consumer after it has failed
        assert!(calls == wn + if verdict == 2 { 1 } else { 0 });
        match verdict {
            0 => assert!(matches!(r, Ok(()))),
            1 => assert!(matches!(r, Err(StreamError::SourceError(ErrA(e))) if e == ev)),
            _ => assert!(matches!(r, Err(StreamError::SinkError(ErrB(e))) if e == ev)),
        }
        kani::cover!(verdict == 1 && wn == 2);
        kani::cover!(verdict == 2 && wn == 1);
        kani::cover!(verdict == 0 && wn == 3);
    }

    #[kani::proof]
    #[kani::unwind(5)]
    fn c15_stream_iter_k3() {
        check_stream(false);
    }

    #[kani::proof]
    #[kani::unwind(5)]
    fn c15_stream_chain_k3() {
        check_stream(true);
    }
'''


def generate(maxdepth=3):
    names, body = [], []
    for c in chains(maxdepth):
        n, t = step_harness(c)
        names.append(n)
        body.append(t)
    return names, HEADER + "".join(body) + STREAM + FOOTER


if __name__ == "__main__":
    names, text = generate()
    print(len(names))
    print(text)
