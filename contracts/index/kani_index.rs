#[cfg(kani)]
mod verif_c10 {
    //! C10 / U-INDEX: memory-safety obligations (CBMC pointer checks: dereference of a dead / freed object) and the
    //! TermIndex contract on the real SimpleTermIndex, for concrete terms and short histories including
    //! clone + drop of the original.
    use super::*;
    use sophia_api::term::{BnodeId, IriRef, SimpleTerm, Term};

    /// deterministic SipHash keys (the real RandomState draws them from the OS; any fixed value is one of the
    /// executions the property quantifies over)
    pub fn fixed_random_state() -> std::hash::RandomState {
        unsafe { std::mem::transmute::<(u64, u64), std::hash::RandomState>((1, 2)) }
    }

    fn iri(s: &'static str) -> SimpleTerm<'static> {
        SimpleTerm::Iri(IriRef::new_unchecked(s.into()))
    }
    fn first_byte(t: &SimpleTerm) -> u8 {
        match t {
            SimpleTerm::Iri(i) => i.as_str().as_bytes()[0],
            SimpleTerm::BlankNode(b) => b.as_str().as_bytes()[0],
            _ => 0,
        }
    }

    //@STUBS
    #[kani::proof]
    #[kani::stub(std::hash::RandomState::new, fixed_random_state)]
    #[kani::unwind(12)]
    fn c10_index_clone_drop_original() {
        let mut ix = SimpleTermIndex::<u16>::new();
        let i = ix.ensure_index(iri("a")).unwrap();
        assert!(i == 0);
        let c = ix.clone();
        drop(ix);
        // the clone must be self-contained: reading the term back touches only memory the clone owns
        let t = c.get_term(i);
        assert!(first_byte(t) == b'a');
        assert!(c.get_index(iri("a")) == Some(0));
    }

    //@STUBS
    #[kani::proof]
    #[kani::stub(std::hash::RandomState::new, fixed_random_state)]
    #[kani::unwind(12)]
    fn c10_index_contract_two_terms() {
        let mut ix = SimpleTermIndex::<u16>::new();
        assert!(ix.get_index(iri("a")).is_none());
        let a = ix.ensure_index(iri("a")).unwrap();
        let b = ix.ensure_index(SimpleTerm::BlankNode(BnodeId::new_unchecked("b".into()))).unwrap();
        let a2 = ix.ensure_index(iri("a")).unwrap();
        assert!(a == 0 && b == 1 && a2 == 0);
        assert!(ix.len() == 2);
        assert!(first_byte(ix.get_term(a)) == b'a');
        assert!(first_byte(ix.get_term(b)) == b'b');
        assert!(ix.get_index(iri("a")) == Some(0));
        assert!(ix.get_default_graph_index() == u16::MAX);
    }
}
