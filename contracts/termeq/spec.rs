// U-TERMEQ: contract-bearing stand-ins (R0) for the default Term::eq (api/src/term.rs) and Triple::eq / eq_spo
// (api/src/triple.rs).
//
// TermV is the abstract value of an RDF term; teq is the equality the property states: same kind, same IRI / label /
// name, same lexical form and datatype, language tags equal up to ASCII case, quoted triples component-wise.
// wf: a language-tagged literal has datatype rdf:langString (so that "the datatype" is not an independent
// component of a tagged literal).
pub enum TermV {
    Iri(Seq<u8>),
    Blank(Seq<u8>),
    Literal(Seq<u8>, Option<Seq<u8>>, Seq<u8>),
    Triple(Box<TermV>, Box<TermV>, Box<TermV>),
    Variable(Seq<u8>),
}
#[derive(PartialEq, Eq, Clone, Copy, Structural)]
pub enum TermKind { Iri, BlankNode, Literal, Triple, Variable }

pub open spec fn kind_of(v: TermV) -> TermKind {
    match v {
        TermV::Iri(_) => TermKind::Iri,
        TermV::Blank(_) => TermKind::BlankNode,
        TermV::Literal(_, _, _) => TermKind::Literal,
        TermV::Triple(_, _, _) => TermKind::Triple,
        TermV::Variable(_) => TermKind::Variable,
    }
}
pub open spec fn depth(v: TermV) -> nat
    decreases v,
{
    match v {
        TermV::Triple(s, p, o) => 1 + depth(*s) + depth(*p) + depth(*o),
        _ => 0,
    }
}
pub uninterp spec fn rdf_lang_string() -> Seq<u8>;
pub open spec fn wf(v: TermV) -> bool
    decreases v,
{
    match v {
        TermV::Literal(_, Some(_), dt) => dt == rdf_lang_string(),
        TermV::Triple(s, p, o) => wf(*s) && wf(*p) && wf(*o),
        _ => true,
    }
}
pub open spec fn lower_b(b: u8) -> u8 { if 65 <= b <= 90 { (b + 32) as u8 } else { b } }
pub open spec fn lower(s: Seq<u8>) -> Seq<u8> { Seq::new(s.len(), |i: int| lower_b(s[i])) }

pub open spec fn teq(a: TermV, b: TermV) -> bool
    decreases a,
{
    match (a, b) {
        (TermV::Iri(x), TermV::Iri(y)) => x == y,
        (TermV::Blank(x), TermV::Blank(y)) => x == y,
        (TermV::Variable(x), TermV::Variable(y)) => x == y,
        (TermV::Literal(l1, t1, d1), TermV::Literal(l2, t2, d2)) => l1 == l2 && match (t1, t2) {
            (None, None) => d1 == d2,
            (Some(x), Some(y)) => lower(x) == lower(y),
            _ => false,
        },
        (TermV::Triple(s1, p1, o1), TermV::Triple(s2, p2, o2)) => teq(*s1, *s2) && teq(*p1, *p2) && teq(*o1, *o2),
        _ => false,
    }
}

pub proof fn lemma_teq_refl(a: TermV)
    ensures teq(a, a),
    decreases a,
{
    match a {
        TermV::Triple(s, p, o) => { lemma_teq_refl(*s); lemma_teq_refl(*p); lemma_teq_refl(*o); }
        _ => {}
    }
}
pub proof fn lemma_teq_sym(a: TermV, b: TermV)
    requires teq(a, b),
    ensures teq(b, a),
    decreases a,
{
    match (a, b) {
        (TermV::Triple(s1, p1, o1), TermV::Triple(s2, p2, o2)) => { lemma_teq_sym(*s1, *s2); lemma_teq_sym(*p1, *p2); lemma_teq_sym(*o1, *o2); }
        _ => {}
    }
}
pub proof fn lemma_teq_trans(a: TermV, b: TermV, c: TermV)
    requires teq(a, b), teq(b, c),
    ensures teq(a, c),
    decreases a,
{
    match (a, b, c) {
        (TermV::Triple(s1, p1, o1), TermV::Triple(s2, p2, o2), TermV::Triple(s3, p3, o3)) => {
            lemma_teq_trans(*s1, *s2, *s3); lemma_teq_trans(*p1, *p2, *p3); lemma_teq_trans(*o1, *o2, *o3);
        }
        _ => {}
    }
}

#[verifier::external_body]
pub struct Str { _p: () }
impl Str {
    pub uninterp spec fn view(&self) -> Seq<u8>;
}
#[verifier::external_body]
pub fn opt_eq(a: &Option<Str>, b: &Option<Str>) -> (r: bool)
    ensures r == match (a, b) { (None, None) => true, (Some(x), Some(y)) => x.view() == y.view(), _ => false },
{ unimplemented!() }
// LanguageTag<..>: its == is ASCII-case-insensitive (api/src/term/language_tag.rs: eq_ignore_ascii_case; outside
// Verus' subset, checked bounded by kani:c02_langtag_laws)
#[verifier::external_body]
pub struct Tag { _p: () }
impl Tag {
    pub uninterp spec fn view(&self) -> Seq<u8>;
}
#[verifier::external_body]
pub fn tag_eq(a: &Tag, b: &Tag) -> (r: bool)
    ensures r == (lower(a.view()) == lower(b.view())),
{ unimplemented!() }

pub trait Term: Sized {
    spec fn tv(&self) -> TermV;
    fn kind(&self) -> (k: TermKind) ensures k == kind_of(self.tv());
    fn iri(&self) -> (r: Option<Str>)
        ensures self.tv() is Iri ==> r is Some && r->Some_0.view() == self.tv()->Iri_0;
    fn bnode_id(&self) -> (r: Option<Str>)
        ensures self.tv() is Blank ==> r is Some && r->Some_0.view() == self.tv()->Blank_0;
    fn variable(&self) -> (r: Option<Str>)
        ensures self.tv() is Variable ==> r is Some && r->Some_0.view() == self.tv()->Variable_0;
    fn lexical_form(&self) -> (r: Option<Str>)
        ensures self.tv() is Literal ==> r is Some && r->Some_0.view() == self.tv()->Literal_0;
    fn language_tag(&self) -> (r: Option<Tag>)
        ensures self.tv() is Literal ==> (r is Some <==> self.tv()->Literal_1 is Some)
            && (r is Some ==> r->Some_0.view() == self.tv()->Literal_1->Some_0);
    fn datatype(&self) -> (r: Option<Str>)
        ensures self.tv() is Literal ==> r is Some && r->Some_0.view() == self.tv()->Literal_2;
    fn triple(&self) -> (r: Option<[Self; 3]>)
        ensures self.tv() is Triple ==> r is Some
            && r->Some_0[0].tv() == *self.tv()->Triple_0
            && r->Some_0[1].tv() == *self.tv()->Triple_1
            && r->Some_0[2].tv() == *self.tv()->Triple_2;
}

pub trait Triple: Sized {
    type BT: Term;
    spec fn sv(&self) -> TermV;
    spec fn pv(&self) -> TermV;
    spec fn ov(&self) -> TermV;
    fn s(&self) -> (r: Self::BT) ensures r.tv() == self.sv();
    fn p(&self) -> (r: Self::BT) ensures r.tv() == self.pv();
    fn o(&self) -> (r: Self::BT) ensures r.tv() == self.ov();
}
impl<T: Term> Triple for [T; 3] {
    type BT = T;
    open spec fn sv(&self) -> TermV { self[0].tv() }
    open spec fn pv(&self) -> TermV { self[1].tv() }
    open spec fn ov(&self) -> TermV { self[2].tv() }
    #[verifier::external_body] fn s(&self) -> (r: T) { unimplemented!() }
    #[verifier::external_body] fn p(&self) -> (r: T) { unimplemented!() }
    #[verifier::external_body] fn o(&self) -> (r: T) { unimplemented!() }
}

