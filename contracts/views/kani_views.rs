#[cfg(kani)]
mod verif_c11 {
    //! C11 forwarding contracts of the graph/dataset views (api/src/graph/adapter.rs, api/src/dataset/adapter.rs)
    //! against a RECORDING dataset/graph: which matchers reach the store in which position (probed on three
    //! graph names and three terms), that the graph name is dropped / added, and that mutations carry the view's
    //! graph name and return the store's flag.
    use crate::dataset::adapter::GraphAsDataset;
    use crate::dataset::{DResult, Dataset, MdResult, MutableDataset};
    use crate::graph::adapter::{DatasetGraph, PartialUnionGraph, UnionGraph};
    use crate::graph::{GResult, Graph, MutableGraph};
    use crate::quad::{Quad, Spog};
    use crate::term::matcher::{Any, GraphNameMatcher, TermMatcher};
    use crate::term::{BnodeId, GraphName, Term, TermKind};
    use crate::triple::Triple;
    use mownstr::MownStr;
    use std::cell::Cell;
    use std::convert::Infallible;

    const IDS: [&str; 10] = ["0", "1", "2", "3", "4", "5", "6", "7", "8", "9"];

    /// harness term: a blank node whose label is one digit
    #[derive(Clone, Copy, Debug)]
    pub struct K(pub u8);
    impl Term for K {
        type BorrowTerm<'x> = K;
        fn kind(&self) -> TermKind {
            TermKind::BlankNode
        }
        fn bnode_id(&self) -> Option<BnodeId<MownStr>> {
            Some(BnodeId::new_unchecked(MownStr::from_ref(IDS[(self.0 % 10) as usize])))
        }
        fn borrow_term(&self) -> K {
            *self
        }
    }
    fn id<T: Term>(t: T) -> u8 {
        t.bnode_id().unwrap().as_str().as_bytes()[0] - b'0'
    }

    /// what the store saw in its last quads_matching call
    #[derive(Default)]
    pub struct Rec {
        pub calls: Cell<u8>,
        pub s_ok: Cell<bool>,
        pub p_ok: Cell<bool>,
        pub o_ok: Cell<bool>,
        pub g_none: Cell<bool>,
        pub g_7: Cell<bool>,
        pub g_8: Cell<bool>,
    }
    impl Dataset for Rec {
        type Quad<'x> = Spog<K>;
        type Error = Infallible;
        fn quads(&self) -> impl Iterator<Item = DResult<Self, Self::Quad<'_>>> + '_ {
            std::iter::once(Ok(([K(1), K(2), K(3)], Some(K(7)))))
        }
        fn quads_matching<'s, 't, S, P, O, G>(&'s self, sm: S, pm: P, om: O, gm: G) -> impl Iterator<Item = DResult<Self, Self::Quad<'s>>> + 't
        where
            's: 't,
            S: TermMatcher + 't,
            P: TermMatcher + 't,
            O: TermMatcher + 't,
            G: GraphNameMatcher + 't,
        {
            self.calls.set(self.calls.get() + 1);
            // probes: the subject matcher must be the one accepting exactly 1, predicate 2, object 3
            self.s_ok.set(sm.matches(&K(1)) && !sm.matches(&K(2)) && !sm.matches(&K(3)));
            self.p_ok.set(pm.matches(&K(2)) && !pm.matches(&K(1)) && !pm.matches(&K(3)));
            self.o_ok.set(om.matches(&K(3)) && !om.matches(&K(1)) && !om.matches(&K(2)));
            self.g_none.set(gm.matches(None as GraphName<&K>));
            self.g_7.set(gm.matches(Some(&K(7))));
            self.g_8.set(gm.matches(Some(&K(8))));
            std::iter::once(Ok(([K(1), K(2), K(3)], Some(K(7)))))
        }
    }

    fn one_triple_123<I, T: Triple>(mut it: I)
    where
        I: Iterator<Item = Result<T, Infallible>>,
    {
        let t = it.next().unwrap().unwrap();
        assert!(id(t.s()) == 1 && id(t.p()) == 2 && id(t.o()) == 3);
        assert!(it.next().is_none());
    }

    //@STUBS
    #[kani::proof]
    #[kani::unwind(4)]
    fn c11_union_graph_forwards() {
        let d = Rec::default();
        let v = UnionGraph::new(&d);
        one_triple_123(v.triples_matching([K(1)], [K(2)], [K(3)]));
        assert!(d.calls.get() == 1 && d.s_ok.get() && d.p_ok.get() && d.o_ok.get());
        assert!(d.g_none.get() && d.g_7.get() && d.g_8.get()); // every graph
        one_triple_123(v.triples());
    }

    //@STUBS
    #[kani::proof]
    #[kani::unwind(4)]
    fn c11_partial_union_graph_forwards() {
        let d = Rec::default();
        // selector: the default graph and graph 8
        let v = PartialUnionGraph::new(&d, [None, Some(K(8))]);
        one_triple_123(v.triples_matching([K(1)], [K(2)], [K(3)]));
        assert!(d.calls.get() == 1 && d.s_ok.get() && d.p_ok.get() && d.o_ok.get());
        assert!(d.g_none.get() && !d.g_7.get() && d.g_8.get());
        one_triple_123(v.triples());
        assert!(d.calls.get() == 2 && d.g_none.get() && !d.g_7.get() && d.g_8.get());
    }

    //@STUBS
    #[kani::proof]
    #[kani::unwind(4)]
    fn c11_dataset_graph_forwards() {
        let d = Rec::default();
        let named: bool = kani::any();
        let g = if named { Some(K(7)) } else { None };
        let v = DatasetGraph::new(&d, g);
        one_triple_123(v.triples_matching([K(1)], [K(2)], [K(3)]));
        assert!(d.calls.get() == 1 && d.s_ok.get() && d.p_ok.get() && d.o_ok.get());
        assert!(d.g_none.get() == !named && d.g_7.get() == named && !d.g_8.get()); // exactly the view's graph
        one_triple_123(v.triples());
        assert!(d.calls.get() == 2 && d.g_none.get() == !named && d.g_7.get() == named && !d.g_8.get());
    }

    /// mutable store recording the last mutation
    #[derive(Default)]
    pub struct MRec {
        pub inner: Rec,
        pub last: Cell<[u8; 4]>, // s, p, o, g (0 = default graph)
        pub was_insert: Cell<bool>,
        pub answer: Cell<bool>,
        pub n: Cell<u8>,
    }
    impl Dataset for MRec {
        type Quad<'x> = Spog<K>;
        type Error = Infallible;
        fn quads(&self) -> impl Iterator<Item = DResult<Self, Self::Quad<'_>>> + '_ {
            std::iter::empty()
        }
    }
    impl MutableDataset for MRec {
        type MutationError = Infallible;
        fn insert<TS: Term, TP: Term, TO: Term, TG: Term>(&mut self, s: TS, p: TP, o: TO, g: GraphName<TG>) -> MdResult<Self, bool> {
            self.last.set([id(s), id(p), id(o), g.map(id).unwrap_or(0)]);
            self.was_insert.set(true);
            self.n.set(self.n.get() + 1);
            Ok(self.answer.get())
        }
        fn remove<TS: Term, TP: Term, TO: Term, TG: Term>(&mut self, s: TS, p: TP, o: TO, g: GraphName<TG>) -> MdResult<Self, bool> {
            self.last.set([id(s), id(p), id(o), g.map(id).unwrap_or(0)]);
            self.was_insert.set(false);
            self.n.set(self.n.get() + 1);
            Ok(self.answer.get())
        }
    }

    //@STUBS
    #[kani::proof]
    #[kani::unwind(6)]
    fn c11_dataset_graph_mutations() {
        let mut d = MRec::default();
        let answer: bool = kani::any();
        d.answer.set(answer);
        let named: bool = kani::any();
        let g = if named { Some(K(7)) } else { None };
        let ins: bool = kani::any();
        let r = {
            let mut v = DatasetGraph::new(&mut d, g);
            if ins { v.insert(K(1), K(2), K(3)) } else { v.remove(K(1), K(2), K(3)) }
        };
        assert!(matches!(r, Ok(b) if b == answer)); // the store flag, unchanged
        assert!(d.n.get() == 1 && d.was_insert.get() == ins);
        assert!(d.last.get() == [1, 2, 3, if named { 7 } else { 0 }]); // in the view's graph only
    }

    /// recording graph for GraphAsDataset
    #[derive(Default)]
    pub struct GRec {
        pub calls: Cell<u8>,
        pub spo_ok: Cell<bool>,
    }
    impl Graph for GRec {
        type Triple<'x> = [K; 3];
        type Error = Infallible;
        fn triples(&self) -> impl Iterator<Item = GResult<Self, Self::Triple<'_>>> + '_ {
            std::iter::once(Ok([K(1), K(2), K(3)]))
        }
        fn triples_matching<'s, 't, S, P, O>(&'s self, sm: S, pm: P, om: O) -> impl Iterator<Item = GResult<Self, Self::Triple<'s>>> + 't
        where
            's: 't,
            S: TermMatcher + 't,
            P: TermMatcher + 't,
            O: TermMatcher + 't,
        {
            self.calls.set(self.calls.get() + 1);
            self.spo_ok.set(sm.matches(&K(1)) && !sm.matches(&K(2)) && pm.matches(&K(2)) && !pm.matches(&K(3)) && om.matches(&K(3)) && !om.matches(&K(1)));
            std::iter::once(Ok([K(1), K(2), K(3)]))
        }
    }

    //@STUBS
    #[kani::proof]
    #[kani::unwind(4)]
    fn c11_graph_as_dataset_queries() {
        let g = GRec::default();
        let v = GraphAsDataset::new(&g);
        // a selector that includes the default graph: forwarded, quad is in the default graph
        {
            let mut it = v.quads_matching([K(1)], [K(2)], [K(3)], [None, Some(K(8))]);
            let q = it.next().unwrap().unwrap();
            assert!(id(q.s()) == 1 && id(q.p()) == 2 && id(q.o()) == 3 && q.g().is_none());
            assert!(it.next().is_none());
        }
        assert!(g.calls.get() == 1 && g.spo_ok.get());
        // a selector that excludes the default graph: nothing, and the graph is not even queried
        assert!(v.quads_matching([K(1)], [K(2)], [K(3)], [Some(K(8))]).next().is_none());
        assert!(g.calls.get() == 1);
        // contains: only in the default graph
        assert!(matches!(v.contains(K(1), K(2), K(3), Some(K(8))), Ok(false)));
    }

    /// a graph-name matcher of which only `matches` is known (no constant() hint): it accepts the default graph
    /// iff `default`, a named graph iff `named`
    pub struct SymGn {
        pub default: bool,
        pub named: bool,
    }
    impl crate::term::matcher::GraphNameMatcher for SymGn {
        type Term = K;
        fn matches<T2: Term + ?Sized>(&self, graph_name: GraphName<&T2>) -> bool {
            match graph_name {
                None => self.default,
                Some(_) => self.named,
            }
        }
    }

    /// contract of GraphAsDataset::quads_matching for EVERY graph-name matcher: the graph's matching triples are
    /// shown (as quads of the default graph) iff the matcher accepts the default graph, whatever else it accepts
    //@STUBS
    #[kani::proof]
    #[kani::unwind(4)]
    fn c11_graph_as_dataset_any_matcher() {
        let g = GRec::default();
        let v = GraphAsDataset::new(&g);
        let m = SymGn { default: kani::any(), named: kani::any() };
        let accepts_default = m.default;
        let mut it = v.quads_matching([K(1)], [K(2)], [K(3)], m);
        let first = it.next();
        if accepts_default {
            let q = first.unwrap().unwrap();
            assert!(id(q.s()) == 1 && id(q.p()) == 2 && id(q.o()) == 3 && q.g().is_none());
            assert!(it.next().is_none());
        } else {
            assert!(first.is_none());
        }
        kani::cover!(accepts_default);
        kani::cover!(!accepts_default);
    }

    /// mutable recording graph for GraphAsDataset's MutableDataset impl
    #[derive(Default)]
    pub struct MGRec {
        pub last: Cell<[u8; 3]>,
        pub was_insert: Cell<bool>,
        pub answer: Cell<bool>,
        pub n: Cell<u8>,
    }
    impl Graph for MGRec {
        type Triple<'x> = [K; 3];
        type Error = Infallible;
        fn triples(&self) -> impl Iterator<Item = GResult<Self, Self::Triple<'_>>> + '_ {
            std::iter::empty()
        }
    }
    impl MutableGraph for MGRec {
        type MutationError = Infallible;
        fn insert<TS: Term, TP: Term, TO: Term>(&mut self, s: TS, p: TP, o: TO) -> crate::graph::MgResult<Self, bool> {
            self.last.set([id(s), id(p), id(o)]);
            self.was_insert.set(true);
            self.n.set(self.n.get() + 1);
            Ok(self.answer.get())
        }
        fn remove<TS: Term, TP: Term, TO: Term>(&mut self, s: TS, p: TP, o: TO) -> crate::graph::MgResult<Self, bool> {
            self.last.set([id(s), id(p), id(o)]);
            self.was_insert.set(false);
            self.n.set(self.n.get() + 1);
            Ok(self.answer.get())
        }
    }

    //@STUBS
    #[kani::proof]
    #[kani::unwind(6)]
    fn c11_graph_as_dataset_mutations() {
        let mut g = MGRec::default();
        let answer: bool = kani::any();
        g.answer.set(answer);
        let ins: bool = kani::any();
        let named: bool = kani::any();
        let gn = if named { Some(K(7)) } else { None };
        let r = {
            let mut v = GraphAsDataset::new(&mut g);
            if ins { v.insert(K(1), K(2), K(3), gn) } else { v.remove(K(1), K(2), K(3), gn) }
        };
        if named {
            // only the default graph exists: nothing reaches the graph; insert is refused, remove finds nothing
            assert!(g.n.get() == 0);
            if ins { assert!(r.is_err()); } else { assert!(matches!(r, Ok(false))); }
        } else {
            assert!(g.n.get() == 1);
            assert!(g.was_insert.get() == ins); // the SAME operation reaches the graph
            assert!(g.last.get() == [1, 2, 3]);
            assert!(matches!(r, Ok(b) if b == answer));
        }
    }

    /// the projections of a view enumerate the terms of ITS TRIPLES: a term that occurs only as a graph name of the
    /// underlying quads is not a term of the union graph
    //@STUBS
    #[kani::proof]
    #[kani::unwind(8)]
    fn c11_union_graph_projections() {
        let d = Rec::default(); // quads(): one quad (1, 2, 3) in graph 7
        let v = UnionGraph::new(&d);
        let mut seen = [false; 10];
        let mut n = 0;
        for t in v.blank_nodes() {
            let t = t.unwrap();
            seen[id(t) as usize] = true;
            n += 1;
            if n > 6 {
                break;
            }
        }
        assert!(seen[1] && seen[2] && seen[3]);
        assert!(!seen[7]);
        // subjects / predicates / objects are those of the triple
        let mut it = v.subjects();
        assert!(id(it.next().unwrap().unwrap()) == 1);
        let mut it = v.predicates();
        assert!(id(it.next().unwrap().unwrap()) == 2);
        let mut it = v.objects();
        assert!(id(it.next().unwrap().unwrap()) == 3);
    }

    /// graph whose term enumerations each yield a distinct sentinel: a view must answer each enumeration with the
    /// graph's enumeration of the same name (what the graph says its literals are, are the view's literals ...)
    pub struct PRec;
    impl Graph for PRec {
        type Triple<'x> = [K; 3];
        type Error = Infallible;
        fn triples(&self) -> impl Iterator<Item = GResult<Self, Self::Triple<'_>>> + '_ {
            std::iter::once(Ok([K(1), K(2), K(3)]))
        }
        fn subjects(&self) -> impl Iterator<Item = GResult<Self, K>> + '_ {
            std::iter::once(Ok(K(1)))
        }
        fn predicates(&self) -> impl Iterator<Item = GResult<Self, K>> + '_ {
            std::iter::once(Ok(K(2)))
        }
        fn objects(&self) -> impl Iterator<Item = GResult<Self, K>> + '_ {
            std::iter::once(Ok(K(3)))
        }
        fn iris(&self) -> impl Iterator<Item = GResult<Self, K>> + '_ {
            std::iter::once(Ok(K(4)))
        }
        fn blank_nodes(&self) -> impl Iterator<Item = GResult<Self, K>> + '_ {
            std::iter::once(Ok(K(5)))
        }
        fn literals(&self) -> impl Iterator<Item = GResult<Self, K>> + '_ {
            std::iter::once(Ok(K(6)))
        }
        fn variables(&self) -> impl Iterator<Item = GResult<Self, K>> + '_ {
            std::iter::once(Ok(K(8)))
        }
    }
    fn first<I: Iterator<Item = Result<K, Infallible>>>(mut it: I) -> u8 {
        match it.next() {
            Some(Ok(k)) => id(k),
            _ => 99,
        }
    }

    //@STUBS
    #[kani::proof]
    #[kani::unwind(4)]
    fn c11_graph_as_dataset_projections() {
        let g = PRec;
        let v = GraphAsDataset::new(&g);
        assert!(first(v.subjects()) == 1);
        assert!(first(v.predicates()) == 2);
        assert!(first(v.objects()) == 3);
        assert!(first(v.iris()) == 4);
        assert!(first(v.blank_nodes()) == 5);
        assert!(first(v.literals()) == 6);
        assert!(first(v.variables()) == 8);
        assert!(v.graph_names().next().is_none()); // only the default graph
    }
}
