"""Overlay pieces shared by all Kani units: validator stubs (the regex engine makes kani-compiler ICE and is
out of CBMC's reach).  ASSUMPTION recorded in every evidence file: under Kani the validators accept everything."""

IRI_STUBS = '''
#[cfg(kani)]
/// verif overlay: accept-everything stand-in used only as a #[kani::stub] target
pub fn kani_accept(_txt: &str) -> bool {
    true
}
'''

BNODE_STUB = '''
#[cfg(kani)]
impl<T: Borrow<str>> BnodeId<T> {
    /// verif overlay: validator-free constructor used only as a #[kani::stub] target
    pub fn kani_new(id: T) -> Result<Self, InvalidBnodeId> {
        Ok(Self(id))
    }
}
'''
VARNAME_STUB = '''
#[cfg(kani)]
impl<T: Borrow<str>> VarName<T> {
    /// verif overlay: validator-free constructor used only as a #[kani::stub] target
    pub fn kani_new(name: T) -> Result<Self, InvalidVarName> {
        Ok(Self(name))
    }
}
'''
LANGTAG_STUB = '''
#[cfg(kani)]
impl<T: Borrow<str>> LanguageTag<T> {
    /// verif overlay: validator-free constructors used only as #[kani::stub] targets
    pub fn kani_new(tag: T) -> Result<Self, InvalidLanguageTag> {
        Ok(LanguageTag(tag))
    }
    /// verif overlay
    pub fn kani_new_unchecked(tag: T) -> Self {
        LanguageTag(tag)
    }
}
'''

ASSUMPTION = ("Kani: the regex validators (sophia_iri::is_valid_iri_ref/is_absolute_iri_ref/is_relative_iri_ref, "
              "BnodeId::new, VarName::new, LanguageTag::new/new_unchecked) are replaced by accept-everything stubs "
              "(regex_automata makes kani-compiler ICE); no claimed obligation depends on a validator's verdict")


def apply_common(scratch):
    scratch.append("iri/src/_regex.rs", IRI_STUBS)
    scratch.append("api/src/term/bnode_id.rs", BNODE_STUB)
    scratch.append("api/src/term/var_name.rs", VARNAME_STUB)
    scratch.append("api/src/term/language_tag.rs", LANGTAG_STUB)


def stub_attrs(crate):
    """Attribute lines to put on every harness.  crate = 'api' | 'iri' | other."""
    if crate == "iri":
        iri = "crate::_regex"
        acc = "crate::_regex::kani_accept"
    else:
        iri = "sophia_iri"
        acc = "sophia_iri::kani_accept"
    term = "crate::term" if crate == "api" else "sophia_api::term"
    lines = [
        "#[kani::stub(%s::is_valid_iri_ref, %s)]" % (iri, acc),
        "#[kani::stub(%s::is_absolute_iri_ref, %s)]" % (iri, acc),
        "#[kani::stub(%s::is_relative_iri_ref, %s)]" % (iri, acc),
    ]
    if crate != "iri":
        lines += [
            "#[kani::stub(%s::BnodeId::new, %s::BnodeId::kani_new)]" % (term, term),
            "#[kani::stub(%s::VarName::new, %s::VarName::kani_new)]" % (term, term),
            "#[kani::stub(%s::LanguageTag::new, %s::LanguageTag::kani_new)]" % (term, term),
            "#[kani::stub(%s::LanguageTag::new_unchecked, %s::LanguageTag::kani_new_unchecked)]" % (term, term),
        ]
    return "\n".join(lines)


def expand(text, crate):
    """Replace the token //@STUBS in harness source by the stub attributes."""
    return text.replace("//@STUBS", stub_attrs(crate))
