#!/bin/bash
# Build what the checks need from files on disk only (offline).  Everything is rebuilt lazily by the checks
# as well; this only warms caches so that the first quick run is fast.
set -u
cd "$(dirname "$0")"
export CARGO_NET_OFFLINE=true
mkdir -p .cache work evidence
# warm Verus (first run loads vstd)
cat > work/_warm.rs <<'EOR'
use vstd::prelude::*;
verus! { proof fn t() ensures 1 + 1 == 2int {} }
fn main() {}
EOR
verus work/_warm.rs >/dev/null 2>&1 || true
exit 0
